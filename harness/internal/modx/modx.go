// Package modx holds the helpers shared by the C02 and C05 property binaries:
// a global sequence counter, a CA / MITM configuration built once per child,
// an observing listener (every connection handed to martian.Proxy.Serve is
// wrapped in a SrvConn that counts the proxy's reads, writes and Close), a
// TLS-sniffing origin reached through Proxy.SetDial, a recording modifier and
// a small raw HTTP/1 client.
//
// Everything here observes martian at its boundary (net.Listener / net.Conn
// given to Serve, the dial function, the modifier interfaces); no martian
// internals are touched except the verif-tagged live-context counter.
package modx

import (
	"bufio"
	"context"
	"crypto/ecdsa"
	"crypto/elliptic"
	"crypto/rand"
	"crypto/rsa"
	"crypto/tls"
	"crypto/x509"
	"crypto/x509/pkix"
	"errors"
	"fmt"
	"io"
	"math/big"
	"net"
	"net/http"
	"net/http/httputil"
	"net/textproto"
	"net/url"
	"runtime"
	"strconv"
	"strings"
	"sync"
	"sync/atomic"
	"time"

	martian "github.com/google/martian/v3"
	"github.com/google/martian/v3/mitm"
	"github.com/google/martian/v3/trafficshape"

	"verifharness/internal/vh"
)

// Watchdog is the generous bound on every blocking harness step. Its firing is
// always reported as inconclusive by the callers, never as a violation.
const Watchdog = 60 * time.Second

// ---------------------------------------------------------------------------
// global sequence counter: "before"/"after" are orders on Seq, never on time.

var seq int64

// NextSeq returns the next value of the process-wide event counter.
func NextSeq() int64 { return atomic.AddInt64(&seq, 1) }

// CurSeq returns the current value of the counter.
func CurSeq() int64 { return atomic.LoadInt64(&seq) }

// Domain is the suffix of every host name used by the harness; the origin's
// certificate is valid for *.Domain.
const Domain = "vh.test"

// Host returns the host name of label x.
func Host(x string) string { return x + "." + Domain }

// IPs are the IP literals the generators may use as CONNECT authorities or
// request hosts; the origin's certificate is valid for them too.
var IPs = []string{"127.0.0.1", "10.9.8.7", "::1", "2001:db8::7"}

// ---------------------------------------------------------------------------
// CA

// CA is built once per child process (RSA-2048 generation is slow).
type CA struct {
	Cert      *x509.Certificate
	Key       *rsa.PrivateKey
	MC        *mitm.Config
	Pool      *x509.CertPool
	OriginTLS *tls.Config
}

// NewCA creates the authority with mitm.NewAuthority, a mitm.Config for the
// proxy and an independent (harness-issued) wildcard certificate for the origin.
func NewCA() (*CA, error) {
	cert, key, err := mitm.NewAuthority("ca."+Domain, "VH Authority", 24*time.Hour)
	if err != nil {
		return nil, err
	}
	mc, err := mitm.NewConfig(cert, key)
	if err != nil {
		return nil, err
	}
	pool := x509.NewCertPool()
	pool.AddCert(cert)
	ok, err := ecdsa.GenerateKey(elliptic.P256(), rand.Reader)
	if err != nil {
		return nil, err
	}
	tmpl := &x509.Certificate{
		SerialNumber: big.NewInt(time.Now().UnixNano()),
		Subject:      pkix.Name{CommonName: "origin." + Domain},
		DNSNames:     []string{"*." + Domain, Domain},
		IPAddresses:  originIPs(),
		NotBefore:    time.Now().Add(-time.Hour),
		NotAfter:     time.Now().Add(24 * time.Hour),
		KeyUsage:     x509.KeyUsageDigitalSignature,
		ExtKeyUsage:  []x509.ExtKeyUsage{x509.ExtKeyUsageServerAuth},
	}
	der, err := x509.CreateCertificate(rand.Reader, tmpl, cert, &ok.PublicKey, key)
	if err != nil {
		return nil, err
	}
	return &CA{
		Cert: cert, Key: key, MC: mc, Pool: pool,
		OriginTLS: &tls.Config{
			Certificates: []tls.Certificate{{Certificate: [][]byte{der, cert.Raw}, PrivateKey: ok}},
			NextProtos:   []string{"http/1.1"},
		},
	}, nil
}

func originIPs() []net.IP {
	var out []net.IP
	for _, s := range IPs {
		out = append(out, net.ParseIP(s))
	}
	return out
}

// ---------------------------------------------------------------------------
// observing listener

// SrvConn is the proxy's end of a client connection. It counts what the proxy
// does with the socket.
type SrvConn struct {
	net.Conn
	N         int
	rdStarted int64
	rdDone    int64
	rdBytes   int64
	wrBytes   int64
	wrCalls   int64
	closed    int32
	closeSeq  int64
}

func (c *SrvConn) Read(p []byte) (int, error) {
	atomic.AddInt64(&c.rdStarted, 1)
	n, err := c.Conn.Read(p)
	atomic.AddInt64(&c.rdBytes, int64(n))
	atomic.AddInt64(&c.rdDone, 1)
	return n, err
}

// RdPending is the number of Read calls of the proxy side that are blocked in
// the socket right now.
func (c *SrvConn) RdPending() int64 {
	d := atomic.LoadInt64(&c.rdDone)
	return atomic.LoadInt64(&c.rdStarted) - d
}

func (c *SrvConn) Write(p []byte) (int, error) {
	atomic.AddInt64(&c.wrCalls, 1)
	n, err := c.Conn.Write(p)
	atomic.AddInt64(&c.wrBytes, int64(n))
	return n, err
}

// Close records the proxy closing the socket.
func (c *SrvConn) Close() error {
	if atomic.CompareAndSwapInt32(&c.closed, 0, 1) {
		atomic.StoreInt64(&c.closeSeq, NextSeq())
	}
	return c.Conn.Close()
}

// Closed reports whether the proxy side called Close.
func (c *SrvConn) Closed() bool { return atomic.LoadInt32(&c.closed) != 0 }

// RdBytes is the number of bytes the proxy side consumed from the socket.
func (c *SrvConn) RdBytes() int64 { return atomic.LoadInt64(&c.rdBytes) }

// RdStarted is the number of Read calls the proxy side issued.
func (c *SrvConn) RdStarted() int64 { return atomic.LoadInt64(&c.rdStarted) }

// WrBytes is the number of bytes the proxy side wrote to the socket.
func (c *SrvConn) WrBytes() int64 { return atomic.LoadInt64(&c.wrBytes) }

// Listener hands SrvConns to the proxy. Kind "pipe" uses vh.Pipe pairs,
// kind "tcp" a loopback TCP socket.
type Listener struct {
	kind string
	tcp  net.Listener
	ch   chan net.Conn
	done chan struct{}
	once sync.Once

	mu       sync.Mutex
	cond     *sync.Cond
	byRemote map[string]*SrvConn
	all      []*SrvConn
	next     int
}

// NewListener creates a listener of the given kind.
func NewListener(kind string) (*Listener, error) {
	l := &Listener{kind: kind, ch: make(chan net.Conn, 256), done: make(chan struct{}), byRemote: map[string]*SrvConn{}}
	l.cond = sync.NewCond(&l.mu)
	if kind == "tcp" {
		t, err := net.Listen("tcp", "127.0.0.1:0")
		if err != nil {
			return nil, err
		}
		l.tcp = t
	}
	return l, nil
}

func (l *Listener) wrap(c net.Conn) *SrvConn {
	l.mu.Lock()
	l.next++
	sc := &SrvConn{Conn: c, N: l.next}
	l.byRemote[c.RemoteAddr().String()] = sc
	l.all = append(l.all, sc)
	l.cond.Broadcast()
	l.mu.Unlock()
	return sc
}

// Accept implements net.Listener.
func (l *Listener) Accept() (net.Conn, error) {
	if l.tcp != nil {
		c, err := l.tcp.Accept()
		if err != nil {
			return nil, err
		}
		return l.wrap(c), nil
	}
	select {
	case c := <-l.ch:
		return c, nil
	case <-l.done:
		return nil, net.ErrClosed
	}
}

// Close implements net.Listener.
func (l *Listener) Close() error {
	l.once.Do(func() { close(l.done) })
	if l.tcp != nil {
		return l.tcp.Close()
	}
	return nil
}

type pipeAddr string

func (a pipeAddr) Network() string { return "tcp" }
func (a pipeAddr) String() string  { return string(a) }

// Addr implements net.Listener.
func (l *Listener) Addr() net.Addr {
	if l.tcp != nil {
		return l.tcp.Addr()
	}
	return pipeAddr("10.0.0.1:8080")
}

var pipeSerial int64

// Dial opens a client connection and returns it with the proxy-side SrvConn.
func (l *Listener) Dial() (net.Conn, *SrvConn, error) {
	if l.tcp != nil {
		c, err := net.DialTimeout("tcp", l.tcp.Addr().String(), Watchdog)
		if err != nil {
			return nil, nil, err
		}
		if tc, ok := c.(*net.TCPConn); ok {
			tc.SetLinger(0)
		}
		key := c.LocalAddr().String()
		deadline := time.Now().Add(Watchdog)
		l.mu.Lock()
		for l.byRemote[key] == nil {
			if time.Now().After(deadline) {
				l.mu.Unlock()
				c.Close()
				return nil, nil, errors.New("modx: watchdog: connection never accepted by the proxy")
			}
			// cond.Wait with a poll so that the watchdog is honoured
			l.mu.Unlock()
			time.Sleep(200 * time.Microsecond)
			l.mu.Lock()
		}
		sc := l.byRemote[key]
		l.mu.Unlock()
		return c, sc, nil
	}
	id := atomic.AddInt64(&pipeSerial, 1)
	caddr := fmt.Sprintf("10.%d.%d.%d:%d", 1+(id>>24)&0x7f, (id>>16)&0xff, (id>>8)&0xff, 10000+id&0xff)
	cl, sv := vh.Pipe(256<<10, caddr, "10.0.0.1:8080")
	sc := l.wrap(sv)
	select {
	case l.ch <- sc:
		return cl, sc, nil
	case <-l.done:
		return nil, nil, errors.New("modx: listener closed")
	}
}

// Conns returns every connection accepted so far.
func (l *Listener) Conns() []*SrvConn {
	l.mu.Lock()
	defer l.mu.Unlock()
	return append([]*SrvConn(nil), l.all...)
}

// ---------------------------------------------------------------------------
// origin

// Arrival is one request seen by the origin.
type Arrival struct {
	Seq     int64
	XID     string
	TLS     bool
	Method  string
	Target  string
	Host    string
	Addr    string // address the proxy dialled for this connection
	Warning []string
	Header  http.Header
}

// DialEv is one call of the proxy's dial function.
type DialEv struct {
	Seq    int64
	Addr   string
	Failed bool
}

// Origin is the harness's upstream: reached only through Proxy.SetDial, it
// sniffs the first byte of every connection (0x16 = TLS ClientHello).
type Origin struct {
	ca *CA

	mu        sync.Mutex
	arrivals  []Arrival
	dials     []DialEv
	dialFail  map[string]bool          // host -> refuse
	drop      map[string]bool          // xid -> close without answering
	refuse    map[string]bool          // xid -> as downstream proxy, answer the CONNECT with 403 and hang up
	plain     map[string]bool          // host -> answer a TLS ClientHello with plain bytes and close
	delay     map[string]time.Duration // xid -> wait at least this long before answering
	plainHits int64
	conns     map[string][]*vh.PipeConn
	cleartext int64 // connections whose first byte was not a TLS handshake
	tlsConns  int64
	bytes     int64
}

// NewOrigin creates an origin.
func NewOrigin(ca *CA) *Origin {
	return &Origin{ca: ca, dialFail: map[string]bool{}, drop: map[string]bool{}, refuse: map[string]bool{}, plain: map[string]bool{}, delay: map[string]time.Duration{}, conns: map[string][]*vh.PipeConn{}}
}

// SetDialFail makes dials to host (no port) fail.
func (o *Origin) SetDialFail(host string) {
	o.mu.Lock()
	o.dialFail[host] = true
	o.mu.Unlock()
}

// SetRefuse makes the origin, playing the downstream proxy, refuse the
// CONNECT of xid: 403, no tunnel, connection closed.
func (o *Origin) SetRefuse(xid string) {
	o.mu.Lock()
	o.refuse[xid] = true
	o.mu.Unlock()
}

// SetDrop makes the origin close the connection instead of answering xid.
func (o *Origin) SetDrop(xid string) {
	o.mu.Lock()
	o.drop[xid] = true
	o.mu.Unlock()
}

// SetDelay makes the origin wait at least d before answering xid.
func (o *Origin) SetDelay(xid string, d time.Duration) {
	o.mu.Lock()
	o.delay[xid] = d
	o.mu.Unlock()
}

// SetPlainReply makes the origin answer every TLS ClientHello on connections
// dialled for host with plain (non-TLS) bytes and close; cleartext
// connections to the host are served normally.
func (o *Origin) SetPlainReply(host string) {
	o.mu.Lock()
	o.plain[strings.ToLower(host)] = true
	o.mu.Unlock()
}

// PlainReplies is the number of ClientHellos answered with plain bytes.
func (o *Origin) PlainReplies() int64 { return atomic.LoadInt64(&o.plainHits) }

func hostOnly(addr string) string {
	if h, _, err := net.SplitHostPort(addr); err == nil {
		return h
	}
	return addr
}

// Dial is the function given to Proxy.SetDial.
func (o *Origin) Dial(network, addr string) (net.Conn, error) {
	s := NextSeq()
	h := hostOnly(addr)
	o.mu.Lock()
	fail := o.dialFail[h]
	o.dials = append(o.dials, DialEv{Seq: s, Addr: addr, Failed: fail})
	o.mu.Unlock()
	if fail {
		return nil, &net.OpError{Op: "dial", Net: network, Err: errors.New("vh: connection refused by harness")}
	}
	id := atomic.AddInt64(&pipeSerial, 1)
	cl, sv := vh.Pipe(256<<10, fmt.Sprintf("10.200.%d.%d:%d", (id>>8)&0xff, id&0xff, 20000+(id>>16)&0x7fff), addr)
	o.mu.Lock()
	o.conns[h] = append(o.conns[h], sv)
	o.mu.Unlock()
	go o.serve(sv, addr)
	return cl, nil
}

type peeked struct {
	net.Conn
	r io.Reader
}

func (p *peeked) Read(b []byte) (int, error) { return p.r.Read(b) }

func (o *Origin) serve(c *vh.PipeConn, addr string) {
	defer c.Close()
	br := bufio.NewReader(c)
	first, err := br.Peek(1)
	if err != nil {
		return // closed before any byte (blind tunnel torn down, idle dial)
	}
	var rw net.Conn = &peeked{Conn: c, r: br}
	isTLS := first[0] == 0x16
	if isTLS {
		o.mu.Lock()
		plain := o.plain[strings.ToLower(hostOnly(addr))]
		o.mu.Unlock()
		if plain {
			// fault: this port "does not speak TLS"
			atomic.AddInt64(&o.plainHits, 1)
			io.WriteString(c, "HTTP/1.1 400 Bad Request\r\nContent-Length: 0\r\nConnection: close\r\n\r\n")
			return
		}
		atomic.AddInt64(&o.tlsConns, 1)
		tc := tls.Server(rw, o.ca.OriginTLS)
		c.SetDeadline(time.Now().Add(Watchdog))
		if err := tc.Handshake(); err != nil {
			return
		}
		c.SetDeadline(time.Time{})
		rw = tc
		br = bufio.NewReader(tc)
	} else {
		atomic.AddInt64(&o.cleartext, 1)
	}
	for {
		req, err := http.ReadRequest(br)
		if err != nil {
			return
		}
		xid := req.Header.Get("X-Vh-Id")
		if req.Method == "CONNECT" {
			// the origin plays a downstream proxy: accept the tunnel, carry nothing
			a := Arrival{Seq: NextSeq(), XID: xid, TLS: isTLS, Method: req.Method, Target: req.RequestURI, Host: req.Host,
				Addr: addr, Warning: append([]string(nil), req.Header["Warning"]...), Header: req.Header.Clone()}
			o.mu.Lock()
			o.arrivals = append(o.arrivals, a)
			o.conns["x:"+xid] = append(o.conns["x:"+xid], c)
			refuse := o.refuse[xid]
			o.mu.Unlock()
			if refuse {
				// a downstream proxy that does not grant the tunnel
				io.WriteString(rw, "HTTP/1.1 403 Forbidden\r\nContent-Length: 0\r\nX-Downstream-Refused: "+xid+"\r\n\r\n")
				return
			}
			if _, err := io.WriteString(rw, "HTTP/1.1 200 Connection established\r\n\r\n"); err != nil {
				return
			}
			io.Copy(io.Discard, br)
			return
		}
		body, _ := io.ReadAll(req.Body)
		atomic.AddInt64(&o.bytes, int64(len(body))+1)
		a := Arrival{Seq: NextSeq(), XID: xid, TLS: isTLS, Method: req.Method, Target: req.RequestURI, Host: req.Host,
			Addr: addr, Warning: append([]string(nil), req.Header["Warning"]...), Header: req.Header.Clone()}
		o.mu.Lock()
		o.arrivals = append(o.arrivals, a)
		drop := o.drop[xid]
		wait := o.delay[xid]
		o.mu.Unlock()
		if drop {
			return
		}
		if wait > 0 {
			time.Sleep(wait)
		}
		payload := "origin " + xid + " " + strconv.Itoa(len(body)) + "\n"
		t := "0"
		if isTLS {
			t = "1"
		}
		res := "HTTP/1.1 200 OK\r\nContent-Type: text/plain\r\nX-Origin-Id: " + xid + "\r\nX-Origin-Tls: " + t +
			"\r\nContent-Length: " + strconv.Itoa(len(payload)) + "\r\n\r\n" + payload
		if _, err := io.WriteString(rw, res); err != nil {
			return
		}
	}
}

// CloseHost closes the origin's end of every connection dialled for host.
func (o *Origin) CloseHost(host string) {
	o.mu.Lock()
	cs := o.conns[host]
	delete(o.conns, host)
	o.mu.Unlock()
	for _, c := range cs {
		c.Close()
	}
}

// CloseAll closes every origin connection.
func (o *Origin) CloseAll() {
	o.mu.Lock()
	var cs []*vh.PipeConn
	for h, l := range o.conns {
		cs = append(cs, l...)
		delete(o.conns, h)
	}
	o.mu.Unlock()
	for _, c := range cs {
		c.Close()
	}
}

// Arrivals returns a copy of the arrival log.
func (o *Origin) Arrivals() []Arrival {
	o.mu.Lock()
	defer o.mu.Unlock()
	return append([]Arrival(nil), o.arrivals...)
}

// Dials returns a copy of the dial log.
func (o *Origin) Dials() []DialEv {
	o.mu.Lock()
	defer o.mu.Unlock()
	return append([]DialEv(nil), o.dials...)
}

// CleartextConns is the number of upstream connections that did not start
// with a TLS handshake; TLSConns those that did.
func (o *Origin) CleartextConns() int64 { return atomic.LoadInt64(&o.cleartext) }
func (o *Origin) TLSConns() int64       { return atomic.LoadInt64(&o.tlsConns) }

// ---------------------------------------------------------------------------
// recording modifier

// Action is the behaviour the modifier applies to one exchange (from the spec).
type Action struct {
	ReqErr    bool
	ResErr    bool
	Mutate    bool
	Skip      bool
	HijackReq bool
	HijackRes bool
	// ErrKind shapes the error a failing modifier returns: "" one line;
	// "multi" a martian.MultiError of two errors (its text has a line break, as
	// an aggregating fifo.Group produces); "quoted" a text with double quotes,
	// a backslash and a tab.
	ErrKind string
	// HijackErr: the hijacking modifier call also returns an error (what a
	// hijacker does when its peer goes away mid-conversation).
	HijackErr bool
	// Unflushed: a hijacking modifier leaves unflushed bytes in the handed-over bufio.Writer.
	Unflushed bool
	// API marks the exchange as a request to the proxy's API (Context.APIRequest)
	// in the request modifier, as api.Forwarder does.
	API bool
	// MarkInsecure: the request modifier calls the public Session.MarkInsecure()
	// after looking at the session (a modifier is free to; what the proxy tells
	// later requests about their connection must not depend on it).
	MarkInsecure bool
	Srv          *SrvConn      // proxy-side socket of the connection carrying the exchange
	Returned     chan struct{} // closed when the hijacking modifier call has returned
	retOnce      sync.Once
}

// NewAction returns an action with its channel.
func NewAction() *Action { return &Action{Returned: make(chan struct{})} }

// HijackObs is what the hijacking modifier observed.
type HijackObs struct {
	// Unflushed (from the spec): the hijacker leaves bytes in the
	// bufio.Writer it was handed without flushing them before it returns.
	Unflushed bool
	Side      string
	Err       string // error of Session.Hijack
	ConnType  string
	WriteErr  string
	Ack       string
	AckErr    string
	ReturnSeq int64
	RdBytes0  int64 // SrvConn counters when the hijacker returned
	WrBytes0  int64
	RdStart0  int64
}

// Call is one invocation of the modifier.
type Call struct {
	Seq, ExitSeq   int64
	Side           string // "req" | "res"
	XID            string
	Method         string
	Req            *http.Request
	Ctx            *martian.Context
	CtxID          string
	Sess           *martian.Session
	SessID         string
	Secure         bool
	MarkedInsecure bool // this (request-side) call ended with Session.MarkInsecure()
	Scheme         string
	URLHost        string
	ReqHost        string
	RemoteAddr     string
	TLS            *tls.ConnectionState
	HijackedIn     bool // session already hijacked when the modifier was entered
	Status         int
	ReqWarnings    []string // Warning values on the request as seen at entry
	PrevCtxLive    string   // xid of an earlier request of the connection whose context was still retrievable
	Hij            *HijackObs
	Gen            int // generation of the modifier pair that was called (see Recorder.Mod)
}

// Recorder is installed as request and response modifier.
type Recorder struct {
	mu      sync.Mutex
	calls   []*Call
	actions map[string]*Action
	// Hijacker performs the exchange on the connection handed over by
	// Session.Hijack. It must fill h (WriteErr, Ack...).
	Hijacker func(c *Call, conn net.Conn, brw *bufio.ReadWriter, h *HijackObs)
	// prev: connection key (RemoteAddr) -> last non-CONNECT request seen by the request modifier
	prev map[string]prevReq
}

type prevReq struct {
	xid string
	req *http.Request
}

// NewRecorder returns a recorder.
func NewRecorder() *Recorder {
	return &Recorder{actions: map[string]*Action{}, prev: map[string]prevReq{}}
}

// SetAction registers the behaviour for xid before the request is sent.
func (rc *Recorder) SetAction(xid string, a *Action) {
	rc.mu.Lock()
	rc.actions[xid] = a
	rc.mu.Unlock()
}

func (rc *Recorder) action(xid string) *Action {
	rc.mu.Lock()
	defer rc.mu.Unlock()
	return rc.actions[xid]
}

// Calls returns copies of the calls recorded so far (copied under the lock,
// so that calls still in flight can be read safely).
func (rc *Recorder) Calls() []Call {
	rc.mu.Lock()
	defer rc.mu.Unlock()
	out := make([]Call, len(rc.calls))
	for i, c := range rc.calls {
		out[i] = *c
	}
	return out
}

// ReqOf returns the request pointer the request modifier saw for xid (nil if
// the modifier has not been called for it).
func (rc *Recorder) ReqOf(xid string) *http.Request {
	rc.mu.Lock()
	defer rc.mu.Unlock()
	for _, c := range rc.calls {
		if c.XID == xid && c.Side == "req" {
			return c.Req
		}
	}
	return nil
}

// Len is the number of calls recorded.
func (rc *Recorder) Len() int {
	rc.mu.Lock()
	defer rc.mu.Unlock()
	return len(rc.calls)
}

func (rc *Recorder) enter(side string, req *http.Request, status int, gen int) *Call {
	c := &Call{Side: side, Req: req, Status: status, Gen: gen}
	if req != nil {
		c.XID = req.Header.Get("X-Vh-Id")
		c.Method = req.Method
		if req.URL != nil {
			c.Scheme = req.URL.Scheme
			c.URLHost = req.URL.Host
		}
		c.ReqHost = req.Host
		c.RemoteAddr = req.RemoteAddr
		if req.TLS != nil {
			cs := *req.TLS
			c.TLS = &cs
		}
		c.ReqWarnings = append([]string(nil), req.Header["Warning"]...)
		if ctx := martian.NewContext(req); ctx != nil {
			c.Ctx = ctx
			c.CtxID = ctx.ID()
			if s := ctx.Session(); s != nil {
				c.Sess = s
				c.SessID = s.ID()
				c.Secure = s.IsSecure()
				c.HijackedIn = s.Hijacked()
			}
		}
	}
	rc.mu.Lock()
	if side == "req" && req != nil {
		key := req.RemoteAddr
		if p, ok := rc.prev[key]; ok && p.req != req {
			if martian.NewContext(p.req) != nil {
				c.PrevCtxLive = p.xid
			}
		}
		if req.Method != "CONNECT" {
			rc.prev[key] = prevReq{c.XID, req}
		} else {
			delete(rc.prev, key)
		}
	}
	c.Seq = NextSeq()
	rc.calls = append(rc.calls, c)
	rc.mu.Unlock()
	return c
}

func (rc *Recorder) exit(c *Call) {
	s := NextSeq()
	rc.mu.Lock()
	c.ExitSeq = s
	rc.mu.Unlock()
}

func (rc *Recorder) hijack(c *Call, a *Action, side string) {
	h := &HijackObs{Side: side, Unflushed: a.Unflushed}
	if c.Sess == nil {
		h.Err = "no session reachable from the request's context"
	} else {
		conn, brw, err := c.Sess.Hijack()
		if err != nil {
			h.Err = err.Error()
		} else {
			h.ConnType = fmt.Sprintf("%T", conn)
			if rc.Hijacker != nil {
				rc.Hijacker(c, conn, brw, h)
			}
		}
	}
	if a.Srv != nil {
		h.RdBytes0 = a.Srv.RdBytes()
		h.WrBytes0 = a.Srv.WrBytes()
		h.RdStart0 = a.Srv.RdStarted()
	}
	h.ReturnSeq = NextSeq()
	rc.mu.Lock()
	c.Hij = h
	rc.mu.Unlock()
}

// Mod returns a modifier pair (request and response side) that records into
// rc and tags its calls with generation gen. Installing Mod(2) with
// Proxy.SetRequestModifier / SetResponseModifier replaces Mod(1).
func (rc *Recorder) Mod(gen int) *GenMod { return &GenMod{rc: rc, gen: gen} }

// GenMod is one generation of the recording modifier.
type GenMod struct {
	rc  *Recorder
	gen int
}

// ModifyRequest implements martian.RequestModifier.
func (m *GenMod) ModifyRequest(req *http.Request) error { return m.rc.modifyRequest(req, m.gen) }

// ModifyResponse implements martian.ResponseModifier.
func (m *GenMod) ModifyResponse(res *http.Response) error { return m.rc.modifyResponse(res, m.gen) }

// ModifyRequest implements martian.RequestModifier (generation 1).
func (rc *Recorder) ModifyRequest(req *http.Request) error { return rc.modifyRequest(req, 1) }

// ModifyResponse implements martian.ResponseModifier (generation 1).
func (rc *Recorder) ModifyResponse(res *http.Response) error { return rc.modifyResponse(res, 1) }

func (rc *Recorder) modifyRequest(req *http.Request, gen int) error {
	c := rc.enter("req", req, 0, gen)
	a := rc.action(c.XID)
	var err error
	if a != nil {
		if a.Mutate {
			req.Header.Set("X-Vh-Mut", c.XID)
		}
		if a.Skip && c.Ctx != nil {
			c.Ctx.SkipRoundTrip()
		}
		if a.API && c.Ctx != nil {
			c.Ctx.APIRequest()
		}
		if a.MarkInsecure && c.Sess != nil {
			c.Sess.MarkInsecure()
			rc.mu.Lock()
			c.MarkedInsecure = true
			rc.mu.Unlock()
		}
		if a.ReqErr {
			err = ModErr("req", c.XID, a.ErrKind)
		}
		if a.HijackReq {
			rc.hijack(c, a, "req")
			if a.HijackErr {
				err = errors.New("vh-hijacker-peer-gone-" + c.XID)
			}
		}
	}
	rc.exit(c)
	if a != nil && a.HijackReq {
		a.retOnce.Do(func() { close(a.Returned) })
	}
	return err
}

func (rc *Recorder) modifyResponse(res *http.Response, gen int) error {
	c := rc.enter("res", res.Request, res.StatusCode, gen)
	a := rc.action(c.XID)
	var err error
	if a != nil {
		if a.Mutate {
			res.Header.Set("X-Vh-Resmut", c.XID)
		}
		if a.ResErr {
			err = ModErr("res", c.XID, a.ErrKind)
		}
		if a.HijackRes {
			rc.hijack(c, a, "res")
			if a.HijackErr {
				err = errors.New("vh-hijacker-peer-gone-" + c.XID)
			}
		}
	}
	rc.exit(c)
	if a != nil && a.HijackRes {
		a.retOnce.Do(func() { close(a.Returned) })
	}
	return err
}

// ReqErrText / ResErrText are the marker texts of the modifier's errors.
func ReqErrText(xid string) string { return "vh-reqerr-" + xid }
func ResErrText(xid string) string { return "vh-reserr-" + xid }

// ModErr builds the error the modifier returns for an exchange; ErrTokens
// gives the word tokens that a Warning carrying that error must contain.
func ModErr(side, xid, kind string) error {
	base := "vh-" + side + "err-" + xid
	switch kind {
	case "multi":
		me := martian.NewMultiError()
		me.Add(errors.New(base + " first-part"))
		me.Add(errors.New(base + " second-part"))
		return me
	case "quoted":
		return errors.New(base + " said \"quoted-part\" back\\slash\ttab-part")
	case "eof": // errors a modifier that reads a message body can legitimately return
		return io.EOF
	case "closedpipe":
		return io.ErrClosedPipe
	case "timeout":
		return context.DeadlineExceeded // a net.Error whose Timeout() is true
	}
	return errors.New(base)
}

// ErrTokens returns the tokens ([A-Za-z0-9-]+ runs that identify the error)
// in the order they occur in the error text.
func ErrTokens(side, xid, kind string) []string {
	base := "vh-" + side + "err-" + xid
	switch kind {
	case "multi":
		return []string{base, "first-part", base, "second-part"}
	case "quoted":
		return []string{base, "quoted-part", "back", "slash", "tab-part"}
	case "eof":
		return []string{"EOF"}
	case "closedpipe":
		return []string{"closed", "pipe"}
	case "timeout":
		return []string{"deadline", "exceeded"}
	}
	return []string{base}
}

// HasWarning reports whether one of the Warning values is a martian warning
// (code 199, agent "martian") that carries the tokens in order. How control
// characters and quotes of the error text are encoded is not prescribed.
func HasWarning(vals []string, tokens []string) bool {
	for _, v := range vals {
		if !strings.HasPrefix(v, `199 "martian" `) {
			continue
		}
		rest, ok := v, true
		for _, t := range tokens {
			i := strings.Index(rest, t)
			if i < 0 {
				ok = false
				break
			}
			rest = rest[i+len(t):]
		}
		if ok {
			return true
		}
	}
	return false
}

// ---------------------------------------------------------------------------
// rig: proxy + listener + origin + recorder

// RigOpts selects the proxy configuration.
type RigOpts struct {
	MITM      bool
	Listener  string // "plain" | "shaped" | "tls" (transparent TLS listener)
	Transport string // "pipe" | "tcp" (client leg)
	// RoundTripper: "" = an *http.Transport installed with SetRoundTripper;
	// "clone" = a wrapping http.RoundTripper that, like oauth2.Transport or
	// header-injecting wrappers, hands a clone of the request to the
	// *http.Transport it owns (so the response's Request is the clone).
	RoundTripper string
	// Downstream routes blind CONNECTs through a downstream proxy
	// (Proxy.SetDownstreamProxy); the harness origin plays that proxy.
	Downstream bool
	// ShapeLatency / ShapeBitrate configure a "shaped" listener (SetLatency,
	// SetReadBitrate, SetWriteBitrate); zero values leave the defaults.
	ShapeLatency time.Duration
	ShapeBitrate int64
}

// DownstreamHost is the authority of the harness's downstream proxy.
const DownstreamHost = "downstream." + Domain + ":3128"

// cloneRT obeys the RoundTripper contract ("must not modify the request"): it
// works on a shallow copy with its own header map and delegates.
type cloneRT struct{ base http.RoundTripper }

func (c cloneRT) RoundTrip(req *http.Request) (*http.Response, error) {
	req2 := new(http.Request)
	*req2 = *req
	req2.Header = req.Header.Clone()
	req2.Header.Set("X-Vh-Wrapped", "1")
	return c.base.RoundTrip(req2)
}

// Rig is one proxy under observation.
type Rig struct {
	CA     *CA
	Opts   RigOpts
	P      *martian.Proxy
	L      *Listener
	O      *Origin
	Rec    *Recorder
	tr     *http.Transport
	served chan error
	outer  net.Listener
}

// NewRig starts a proxy.
func NewRig(ca *CA, o RigOpts) (*Rig, error) {
	if o.Transport == "" {
		o.Transport = "pipe"
	}
	if o.Listener == "" {
		o.Listener = "plain"
	}
	l, err := NewListener(o.Transport)
	if err != nil {
		return nil, err
	}
	g := &Rig{CA: ca, Opts: o, L: l, O: NewOrigin(ca), Rec: NewRecorder(), served: make(chan error, 1)}
	p := martian.NewProxy()
	g.tr = &http.Transport{
		TLSClientConfig:       &tls.Config{RootCAs: ca.Pool},
		TLSHandshakeTimeout:   Watchdog,
		ExpectContinueTimeout: time.Second,
	}
	if o.RoundTripper == "clone" {
		// SetRoundTripper wires dial and proxy settings only into an
		// *http.Transport: configure the inner transport like NewProxy does.
		g.tr.TLSNextProto = make(map[string]func(string, *tls.Conn) http.RoundTripper)
		g.tr.Dial = g.O.Dial
		p.SetRoundTripper(cloneRT{g.tr})
	} else {
		p.SetRoundTripper(g.tr)
	}
	p.SetDial(g.O.Dial)
	if o.Downstream {
		p.SetDownstreamProxy(&url.URL{Scheme: "http", Host: DownstreamHost})
	}
	p.SetRequestModifier(g.Rec.Mod(1))
	p.SetResponseModifier(g.Rec.Mod(1))
	if o.MITM || o.Listener == "tls" {
		p.SetMITM(ca.MC)
	}
	g.P = p
	var outer net.Listener = l
	switch o.Listener {
	case "shaped":
		tsl := trafficshape.NewListener(l)
		if o.ShapeLatency > 0 {
			tsl.SetLatency(o.ShapeLatency)
		}
		if o.ShapeBitrate > 0 {
			tsl.SetReadBitrate(o.ShapeBitrate)
			tsl.SetWriteBitrate(o.ShapeBitrate)
		}
		outer = tsl
	case "tls":
		outer = tls.NewListener(l, ca.MC.TLS())
	}
	g.outer = outer
	go func() { g.served <- p.Serve(outer) }()
	return g, nil
}

// SwapModifiers installs generation gen of the recording modifier pair through
// the proxy's public setters.
func (g *Rig) SwapModifiers(gen int) {
	m := g.Rec.Mod(gen)
	g.P.SetRequestModifier(m)
	g.P.SetResponseModifier(m)
}

// Activity is the progress fingerprint for vh.Await.
func (g *Rig) Activity() string {
	var rd, wr, closed int64
	for _, c := range g.L.Conns() {
		rd += c.RdBytes() + c.RdStarted()
		wr += c.WrBytes()
		if c.Closed() {
			closed++
		}
	}
	return fmt.Sprintf("rd=%d wr=%d closed=%d calls=%d seq=%d ob=%d live=%d", rd, wr, closed, g.Rec.Len(), CurSeq(),
		atomic.LoadInt64(&g.O.bytes), martian.VerifLiveContexts())
}

// AllClosed reports whether the proxy has closed every accepted connection.
func (g *Rig) AllClosed() bool {
	for _, c := range g.L.Conns() {
		if !c.Closed() {
			return false
		}
	}
	return true
}

// Shutdown stops accepting and releases upstream resources. Client
// connections must have been closed by the caller.
func (g *Rig) Shutdown() {
	g.outer.Close()
	g.L.Close()
	select {
	case <-g.served:
	case <-time.After(Watchdog):
	}
	g.tr.CloseIdleConnections()
	g.O.CloseAll()
}

// ---------------------------------------------------------------------------
// raw client

// Client is a raw HTTP/1 client connection to the proxy.
type Client struct {
	Raw net.Conn
	Srv *SrvConn
	TLS *tls.Conn
	w   io.Writer
	BR  *bufio.Reader
	mu  sync.Mutex
	cnt *cntConn
}

// Dial connects a client to the rig's listener.
func (g *Rig) Dial() (*Client, error) {
	c, sc, err := g.L.Dial()
	if err != nil {
		return nil, err
	}
	cc := &cntConn{Conn: c}
	return &Client{Raw: cc, Srv: sc, w: cc, BR: bufio.NewReader(cc), cnt: cc}, nil
}

// cntConn counts the raw bytes the client wrote to the socket.
type cntConn struct {
	net.Conn
	wr int64
}

func (c *cntConn) Write(p []byte) (int, error) {
	n, err := c.Conn.Write(p)
	atomic.AddInt64(&c.wr, int64(n))
	return n, err
}

// SentRaw is the number of raw bytes the client has written to the socket.
func (c *Client) SentRaw() int64 { return atomic.LoadInt64(&c.cnt.wr) }

// AwaitIdle waits until the proxy has consumed everything the client sent and
// is blocked in a Read on the socket, i.e. is waiting for the next request.
// It returns false if the proxy closed the socket or the watchdog fired.
func (c *Client) AwaitIdle() bool {
	deadline := time.Now().Add(Watchdog)
	for i := 0; ; i++ {
		if c.Srv.Closed() {
			return false
		}
		if c.Srv.RdPending() > 0 && c.Srv.RdBytes() == c.SentRaw() {
			return true
		}
		if time.Now().After(deadline) {
			return false
		}
		if i < 100 {
			runtime.Gosched()
		} else {
			time.Sleep(50 * time.Microsecond)
		}
	}
}

// FailHandshake sends something that starts like a TLS handshake (first byte
// 22) but that the proxy's TLS server must refuse, consumes the alert the
// server answers with, and leaves the connection usable for cleartext.
// kind "garbage": one handshake record with a nonsensical body; kind "alpn":
// a real ClientHello that offers only an ALPN protocol the proxy does not speak.
func (c *Client) FailHandshake(kind, serverName string) error {
	c.Raw.SetDeadline(time.Now().Add(Watchdog))
	defer c.Raw.SetDeadline(time.Time{})
	switch kind {
	case "garbage":
		if _, err := c.Raw.Write([]byte{22, 3, 1, 0, 8, 0xff, 0xff, 0xff, 0xff, 1, 2, 3, 4}); err != nil {
			return err
		}
		// the server's alert record: 5-byte header + body
		hdr := make([]byte, 5)
		if _, err := io.ReadFull(c.BR, hdr); err != nil {
			return fmt.Errorf("reading the alert: %v", err)
		}
		if hdr[0] != 21 {
			return fmt.Errorf("expected a TLS alert record, got type %d", hdr[0])
		}
		body := make([]byte, int(hdr[3])<<8|int(hdr[4]))
		if _, err := io.ReadFull(c.BR, body); err != nil {
			return fmt.Errorf("reading the alert: %v", err)
		}
		return nil
	case "alpn":
		// a real ClientHello whose only ALPN protocol the proxy does not speak
		tc := tls.Client(c.Raw, &tls.Config{ServerName: serverName, InsecureSkipVerify: true, NextProtos: []string{"vh-unsupported/1"}})
		err := tc.Handshake()
		if err == nil {
			return errors.New("the proxy accepted a handshake offering only an unknown ALPN protocol")
		}
		if IsWatchdog(err) {
			return err
		}
		return nil
	}
	return errors.New("unknown kind")
}

func (c *Client) armR() { c.Raw.SetReadDeadline(time.Now().Add(Watchdog)) }
func (c *Client) armW() { c.Raw.SetWriteDeadline(time.Now().Add(Watchdog)) }

// IsWatchdog reports whether err is the harness watchdog (a deadline).
func IsWatchdog(err error) bool {
	var ne net.Error
	return err != nil && errors.As(err, &ne) && ne.Timeout()
}

// StartTLS performs the client handshake on the connection.
func (c *Client) StartTLS(serverName string, roots *x509.CertPool) error {
	return c.StartTLSFrag(serverName, roots, 0)
}

// fragConn splits the first Write: first bytes, then - once the proxy has
// consumed them - the rest.
type fragConn struct {
	net.Conn
	c     *Client
	first int
	done  bool
}

func (f *fragConn) Write(p []byte) (int, error) {
	if f.done || f.first <= 0 || len(p) <= f.first {
		f.done = true
		return f.Conn.Write(p)
	}
	f.done = true
	n, err := f.Conn.Write(p[:f.first])
	if err != nil {
		return n, err
	}
	// wait (condition, watchdog only) until the proxy has read the fragment on its own
	deadline := time.Now().Add(Watchdog)
	for f.c.Srv.RdBytes() != f.c.SentRaw() && !f.c.Srv.Closed() && time.Now().Before(deadline) {
		time.Sleep(50 * time.Microsecond)
	}
	m, err := f.Conn.Write(p[f.first:])
	return n + m, err
}

// StartTLSFrag is StartTLS with the first TLS record (the ClientHello)
// delivered in two pieces: frag bytes, then the rest after the proxy has read
// the first piece (frag 0 = one piece).
func (c *Client) StartTLSFrag(serverName string, roots *x509.CertPool, frag int) error {
	// hand bytes already buffered (none expected) to the TLS layer
	var under net.Conn = c.Raw
	if frag > 0 {
		under = &fragConn{Conn: c.Raw, c: c, first: frag}
	}
	if n := c.BR.Buffered(); n > 0 {
		b, _ := c.BR.Peek(n)
		under = &peeked{Conn: c.Raw, r: io.MultiReader(strings.NewReader(string(b)), c.Raw)}
	}
	tc := tls.Client(under, &tls.Config{RootCAs: roots, ServerName: serverName, NextProtos: []string{"http/1.1"}})
	c.Raw.SetDeadline(time.Now().Add(Watchdog))
	err := tc.Handshake()
	c.Raw.SetDeadline(time.Time{})
	if err != nil {
		return err
	}
	c.TLS = tc
	c.w = tc
	c.BR = bufio.NewReader(tc)
	return nil
}

// Send writes raw bytes (through TLS once started).
func (c *Client) Send(s string) error {
	c.mu.Lock()
	defer c.mu.Unlock()
	c.armW()
	_, err := io.WriteString(c.w, s)
	return err
}

// Resp is a parsed response.
type Resp struct {
	Status int
	Proto  string
	Header http.Header
	Body   []byte
}

// ReadResponse reads one response to a request of the given method.
func (c *Client) ReadResponse(method string) (*Resp, error) {
	c.armR()
	tp := textproto.NewReader(c.BR)
	line, err := tp.ReadLine()
	if err != nil {
		return nil, err
	}
	parts := strings.SplitN(line, " ", 3)
	if len(parts) < 2 || !strings.HasPrefix(parts[0], "HTTP/") {
		return nil, fmt.Errorf("malformed status line %q", line)
	}
	st, err := strconv.Atoi(parts[1])
	if err != nil {
		return nil, fmt.Errorf("malformed status line %q", line)
	}
	mh, err := tp.ReadMIMEHeader()
	if err != nil {
		return nil, err
	}
	r := &Resp{Status: st, Proto: parts[0], Header: http.Header(mh)}
	switch {
	case method == "CONNECT" && st/100 == 2, method == "HEAD", st/100 == 1, st == 204, st == 304:
	case strings.EqualFold(r.Header.Get("Transfer-Encoding"), "chunked"):
		b, err := io.ReadAll(httputil.NewChunkedReader(c.BR))
		if err != nil {
			return r, err
		}
		r.Body = b
		if _, err := tp.ReadMIMEHeader(); err != nil { // trailers + final CRLF
			return r, err
		}
	case r.Header.Get("Content-Length") != "":
		n, err := strconv.Atoi(r.Header.Get("Content-Length"))
		if err != nil || n < 0 {
			return r, fmt.Errorf("bad Content-Length %q", r.Header.Get("Content-Length"))
		}
		b := make([]byte, n)
		if _, err := io.ReadFull(c.BR, b); err != nil {
			return r, err
		}
		r.Body = b
	}
	return r, nil
}

// Collector gathers everything readable from the client side until the
// connection ends.
type Collector struct {
	mu   sync.Mutex
	data []byte
	err  error
	done chan struct{}
}

// Collect starts reading everything from the client connection.
func (c *Client) Collect() *Collector {
	col := &Collector{done: make(chan struct{})}
	c.Raw.SetReadDeadline(time.Time{})
	go func() {
		defer close(col.done)
		buf := make([]byte, 4096)
		for {
			n, err := c.BR.Read(buf)
			col.mu.Lock()
			col.data = append(col.data, buf[:n]...)
			if err != nil {
				col.err = err
				col.mu.Unlock()
				return
			}
			col.mu.Unlock()
		}
	}()
	return col
}

// Snapshot returns the bytes collected so far, the terminal error (nil while
// still reading) and whether the reader has finished.
func (col *Collector) Snapshot() ([]byte, error, bool) {
	col.mu.Lock()
	defer col.mu.Unlock()
	select {
	case <-col.done:
		return append([]byte(nil), col.data...), col.err, true
	default:
		return append([]byte(nil), col.data...), nil, false
	}
}

// Done is closed when the connection has ended (EOF or error at the client).
func (col *Collector) Done() <-chan struct{} { return col.done }

// Len is the number of bytes collected.
func (col *Collector) Len() int {
	col.mu.Lock()
	defer col.mu.Unlock()
	return len(col.data)
}

// Close closes the client connection.
func (c *Client) Close() {
	c.Raw.Close()
}
