package h2term

import (
	"bufio"
	"fmt"
	"net"
	"os"
	"strings"
)

// The relay's upstream socket lives in this process. Its kernel socket inode
// is looked up once (by the 4-tuple, in /proc/self/net/tcp) while the
// connection is established; "the relay has closed the upstream connection" is
// then observed as "no descriptor of this process refers to that inode any
// more" (/proc/self/fd). This is the only way to observe the close when the
// terminating event is the server itself going away.

func hexAddr(a *net.TCPAddr) string {
	ip := a.IP.To4()
	if ip == nil {
		return ""
	}
	return fmt.Sprintf("%02X%02X%02X%02X:%04X", ip[3], ip[2], ip[1], ip[0], a.Port)
}

// SocketInode returns the inode of the TCP socket with the given local and
// remote address, or "" if it is not listed.
func SocketInode(local, remote net.Addr) string {
	la, ok1 := local.(*net.TCPAddr)
	ra, ok2 := remote.(*net.TCPAddr)
	if !ok1 || !ok2 {
		return ""
	}
	lh, rh := hexAddr(la), hexAddr(ra)
	if lh == "" || rh == "" {
		return ""
	}
	f, err := os.Open("/proc/self/net/tcp")
	if err != nil {
		return ""
	}
	defer f.Close()
	sc := bufio.NewScanner(f)
	for sc.Scan() {
		fs := strings.Fields(sc.Text())
		if len(fs) < 10 || fs[1] != lh || fs[2] != rh {
			continue
		}
		if fs[9] == "0" {
			return ""
		}
		return fs[9]
	}
	return ""
}

// SocketOpen reports whether a descriptor of this process still refers to the
// socket inode.
func SocketOpen(inode string) bool {
	want := "socket:[" + inode + "]"
	ents, err := os.ReadDir("/proc/self/fd")
	if err != nil {
		return true
	}
	for _, e := range ents {
		if l, err := os.Readlink("/proc/self/fd/" + e.Name()); err == nil && l == want {
			return true
		}
	}
	return false
}
