package h2term

import (
	"bytes"
	"runtime"
	"sync"
	"sync/atomic"

	"github.com/google/martian/v3/verifhook"
)

// Direction names used throughout.
const (
	C2S = 0
	S2C = 1
)

// DirName maps a direction index to its case-file name.
func DirName(d int) string {
	if d == C2S {
		return "c2s"
	}
	return "s2c"
}

const (
	pointReader = "h2.relay.reader.beforeProcess"
	pointWriter = "h2.relay.writer.beforeSend"
)

// Gates is the schedule control of one session. The hook points carry no
// direction, so the reader (relayFrames) goroutine of each direction is
// learned from the order of the first frames: the harness server sends nothing
// before it has received the client's SETTINGS, hence the first goroutine that
// reaches the reader point is client->server and the next distinct one is
// server->client.
type Gates struct {
	mu        sync.Mutex
	readerGid [2]string
	// reader delay
	delayDir     int // -1: none armed
	delayHit     bool
	delayRelease chan struct{}
	// writer gate
	writerArmed   bool
	writerWaiting int
	writerRelease chan struct{}

	ReaderHits [2]int64
	WriterHits int64
}

var (
	curGates  atomic.Value // *Gates
	retiredMu sync.Mutex
	retired   = map[string]bool{} // goroutine ids of earlier sessions' relay goroutines
	installed sync.Once
	noGates   = &Gates{delayDir: -1}
)

func curGid() string {
	var buf [64]byte
	n := runtime.Stack(buf[:], false)
	b := buf[:n]
	b = bytes.TrimPrefix(b, []byte("goroutine "))
	if i := bytes.IndexByte(b, ' '); i > 0 {
		return string(b[:i])
	}
	return "?"
}

// Retire marks goroutine ids as belonging to a finished session: should such a
// goroutine still reach a hook point later, it passes straight through.
func Retire(ids ...string) {
	retiredMu.Lock()
	for _, id := range ids {
		if id != "" {
			retired[id] = true
		}
	}
	retiredMu.Unlock()
}

func isRetired(id string) bool {
	retiredMu.Lock()
	defer retiredMu.Unlock()
	return retired[id]
}

// NewGates installs a fresh gate set as the process-wide hook target.
func NewGates() *Gates {
	installed.Do(func() {
		verifhook.Set(func(name string) {
			g, _ := curGates.Load().(*Gates)
			if g == nil || g == noGates {
				return
			}
			g.point(name)
		})
	})
	g := &Gates{delayDir: -1}
	curGates.Store(g)
	return g
}

// Uninstall detaches the gates (after releasing everything).
func (g *Gates) Uninstall() {
	g.ReleaseAll()
	curGates.Store(noGates)
	g.mu.Lock()
	ids := []string{g.readerGid[0], g.readerGid[1]}
	g.mu.Unlock()
	Retire(ids...)
}

func (g *Gates) point(name string) {
	gid := curGid()
	if isRetired(gid) {
		return
	}
	switch name {
	case pointReader:
		g.mu.Lock()
		dir := -1
		switch {
		case g.readerGid[C2S] == "":
			g.readerGid[C2S] = gid
			dir = C2S
		case g.readerGid[C2S] == gid:
			dir = C2S
		case g.readerGid[S2C] == "":
			g.readerGid[S2C] = gid
			dir = S2C
		case g.readerGid[S2C] == gid:
			dir = S2C
		}
		var wait chan struct{}
		if dir >= 0 {
			atomic.AddInt64(&g.ReaderHits[dir], 1)
			if g.delayDir == dir && g.delayRelease != nil {
				g.delayHit = true
				wait = g.delayRelease
			}
		}
		g.mu.Unlock()
		if wait != nil {
			<-wait
		}
	case pointWriter:
		atomic.AddInt64(&g.WriterHits, 1)
		g.mu.Lock()
		var wait chan struct{}
		if g.writerArmed {
			g.writerWaiting++
			wait = g.writerRelease
		}
		g.mu.Unlock()
		if wait != nil {
			<-wait
		}
	}
}

// Learned reports whether both reader goroutines are known.
func (g *Gates) Learned() bool {
	g.mu.Lock()
	defer g.mu.Unlock()
	return g.readerGid[C2S] != "" && g.readerGid[S2C] != ""
}

// ReaderGids returns the learned relayFrames goroutine ids.
func (g *Gates) ReaderGids() [2]string {
	g.mu.Lock()
	defer g.mu.Unlock()
	return g.readerGid
}

// ArmDelay makes the next frame processed by direction dir block at the reader
// point until ReleaseDelay.
func (g *Gates) ArmDelay(dir int) {
	g.mu.Lock()
	g.delayDir = dir
	g.delayHit = false
	g.delayRelease = make(chan struct{})
	g.mu.Unlock()
}

// DelayHit reports whether the armed direction is parked at the reader point.
func (g *Gates) DelayHit() bool {
	g.mu.Lock()
	defer g.mu.Unlock()
	return g.delayHit
}

// ReleaseDelay lets the delayed direction continue.
func (g *Gates) ReleaseDelay() {
	g.mu.Lock()
	if g.delayRelease != nil {
		close(g.delayRelease)
		g.delayRelease = nil
	}
	g.delayDir = -1
	g.mu.Unlock()
}

// ArmWriters makes every writer goroutine that dequeues a frame block before
// sending it until ReleaseWriters.
func (g *Gates) ArmWriters() {
	g.mu.Lock()
	g.writerArmed = true
	g.writerWaiting = 0
	g.writerRelease = make(chan struct{})
	g.mu.Unlock()
}

// WritersWaiting is the number of writer goroutines parked at the gate.
func (g *Gates) WritersWaiting() int {
	g.mu.Lock()
	defer g.mu.Unlock()
	return g.writerWaiting
}

// ReleaseWriters opens the writer gate.
func (g *Gates) ReleaseWriters() {
	g.mu.Lock()
	if g.writerRelease != nil {
		close(g.writerRelease)
		g.writerRelease = nil
	}
	g.writerArmed = false
	g.mu.Unlock()
}

// ReleaseAll opens every gate.
func (g *Gates) ReleaseAll() {
	g.ReleaseDelay()
	g.ReleaseWriters()
}

// Hits is an activity component.
func (g *Gates) Hits() [3]int64 {
	return [3]int64{atomic.LoadInt64(&g.ReaderHits[0]), atomic.LoadInt64(&g.ReaderHits[1]), atomic.LoadInt64(&g.WriterHits)}
}
