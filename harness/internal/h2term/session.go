package h2term

import (
	"crypto/tls"
	"errors"
	"fmt"
	"math/rand"
	"net"
	"net/url"
	"sort"
	"strings"
	"sync"
	"sync/atomic"
	"time"

	"github.com/google/martian/v3/h2"
	"golang.org/x/net/http2"
	"golang.org/x/net/http2/hpack"

	"verifharness/internal/vh"
)

// Terminating events, session states (DESIGN.md C10).
var (
	Events = []string{"client-close", "server-close", "write-fail-client", "write-fail-server",
		"proto-error-client", "proto-error-server", "closing",
		// both sides go away: a clean close of one side, then the other side closes / resets / its writes fail
		"server-then-client-close", "client-then-server-close"}
	States = []string{"idle", "mid-stream", "blocked", "chan-full"}
	// In the "write-blocked" state the server has stopped reading: the relay's socket write toward it is
	// blocked and the client->server reader is parked behind it. In "client-write-blocked" the client has
	// stopped reading: the server->client writer is blocked in Write(cc) and its reader is parked.
	// Both are enumerated with every event.
	// DialingEvents: events while the upstream TLS handshake is still in progress.
	DialingEvents = []string{"closing", "client-close", "write-fail-server",
		// the TCP connect succeeds and the TLS handshake then fails
		"handshake-fail-untrusted-cert", "handshake-fail-wrong-name", "handshake-fail-garbage", "handshake-fail-server-closes"}
)

// Cell is one (event x state x delayed direction) case; Idx selects the PRNG.
type Cell struct {
	Kind  string `json:"kind"` // "cell"
	Event string `json:"event"`
	State string `json:"state"`          // States or "preface"
	Delay string `json:"delay"`          // "c2s" | "s2c" ("-" for preface cells)
	Proc  string `json:"proc,omitempty"` // stream processors installed in the relay: "" | "h2" | "grpc"
	Idx   int    `json:"idx"`
}

// Class is the coverage class of the cell.
func (c Cell) Class() string { return c.Event + "/" + c.State + "/delay=" + c.Delay }

// Viol is one violated clause of one cell.
type Viol struct {
	Sig     string
	What    string
	Witness interface{}
}

// Result of one cell execution.
type Result struct {
	Established bool   // the state and the delay were observed to be in place before the event
	Why         string // why not (inconclusive for this attempt)
	Undecided   string // an Await ended Undecided (inconclusive)
	Viols       []Viol
	Params      map[string]interface{} // what the PRNG drew and what was observed
	Returned    bool
	WallMS      int64
}

// malformed frames: every entry is a *connection* error for any HTTP/2
// endpoint (RFC 7540), so the session must end whatever the relay's policy on
// stream errors / unknown frame types is.
type badFrame struct {
	name    string
	t       http2.FrameType
	flags   http2.Flags
	id      uint32
	payload []byte
}

var badFrames = []badFrame{
	{"settings-len-5", http2.FrameSettings, 0, 0, []byte{0, 4, 0, 0, 1}},
	{"settings-ack-with-payload", http2.FrameSettings, http2.FlagSettingsAck, 0, []byte{0, 4, 0, 0, 0, 1}},
	{"settings-on-stream", http2.FrameSettings, 0, 1, nil},
	{"settings-iws-too-large", http2.FrameSettings, 0, 0, []byte{0, 4, 0x80, 0, 0, 0}},
	{"ping-len-7", http2.FramePing, 0, 0, []byte{1, 2, 3, 4, 5, 6, 7}},
	{"ping-on-stream", http2.FramePing, 0, 3, []byte{1, 2, 3, 4, 5, 6, 7, 8}},
	{"window-update-len-3", http2.FrameWindowUpdate, 0, 0, []byte{0, 0, 1}},
	{"window-update-zero-conn", http2.FrameWindowUpdate, 0, 0, []byte{0, 0, 0, 0}},
	{"data-on-stream-0", http2.FrameData, 0, 0, []byte("x")},
	{"data-pad-too-long", http2.FrameData, http2.FlagDataPadded, 1, []byte{200, 'a', 'b'}},
	{"headers-on-stream-0", http2.FrameHeaders, http2.FlagHeadersEndHeaders, 0, []byte{0x82}},
	{"rst-len-3", http2.FrameRSTStream, 0, 1, []byte{0, 0, 8}},
	{"rst-on-stream-0", http2.FrameRSTStream, 0, 0, []byte{0, 0, 0, 8}},
	{"priority-on-stream-0", http2.FramePriority, 0, 0, []byte{0, 0, 0, 1, 16}},
	{"goaway-len-4", http2.FrameGoAway, 0, 0, []byte{0, 0, 0, 0}},
	{"goaway-on-stream", http2.FrameGoAway, 0, 1, []byte{0, 0, 0, 0, 0, 0, 0, 0}},
	{"continuation-without-headers", http2.FrameContinuation, http2.FlagContinuationEndHeaders, 1, []byte{0x82}},
	{"headers-hpack-index-0", http2.FrameHeaders, http2.FlagHeadersEndHeaders, 101, []byte{0x80}},
}

var errInjected = errors.New("c10 harness: injected write failure toward the client")

// Budget bounds the time spent in full-length quiescence windows once a
// signature has been established in this process (unfixed tree: nearly every
// cell is stuck). A shortened window is only accepted for a signature that the
// full window has already confirmed twice; otherwise the wait continues with
// the full window.
type Budget struct {
	mu    sync.Mutex
	total int
	full  map[string]int
}

func NewBudget() *Budget { return &Budget{full: map[string]int{}} }

// await waits for cond with the spin-aware session quiescence oracle. sigOf maps the
// spin description ("" = parked) to the signature the verdict would get.
func (b *Budget) await(cond func() bool, activity func() string, exclude map[string]bool, sigOf func(spin string) string) (vh.Outcome, string) {
	b.mu.Lock()
	short := b.total >= 3
	b.mu.Unlock()
	if short {
		out, spin := awaitSession(cond, activity, exclude, awaitOpts{Grace: 1500 * time.Millisecond, Samples: 4, Interval: 300 * time.Millisecond})
		if out != vh.Stuck {
			return out, spin
		}
		b.mu.Lock()
		ok := b.full[sigOf(spin)] >= 2
		b.mu.Unlock()
		if ok {
			return out, spin
		}
	}
	out, spin := awaitSession(cond, activity, exclude, awaitOpts{})
	if out == vh.Stuck {
		b.mu.Lock()
		b.total++
		b.full[sigOf(spin)]++
		b.mu.Unlock()
	}
	return out, spin
}

// ---------------------------------------------------------------------------

type session struct {
	rng     *rand.Rand
	cell    Cell
	res     *Result
	budget  *Budget
	closing chan bool
	closed  bool // closing closed
	cc, cl  *vh.PipeConn
	ln      net.Listener
	raw     *net.TCPConn
	tc      *tls.Conn
	cli     *Endpoint
	srv     *Endpoint
	gates   *Gates
	base    map[string]bool // relay goroutines that existed before this session
	inode   string
	inodeV  atomic.Value // string, for the Proxy goroutine

	proxyDone chan struct{}
	proxyErr  error
	// fdAtReturn: state of the relay's upstream socket sampled by the calling
	// goroutine immediately after Proxy returned (1 open, 0 closed, -1 unknown).
	// It is sampled synchronously because a conn that was merely dropped is
	// closed later by its finalizer, which is not "closed when Proxy returns".
	fdAtReturn int
	returned   int32

	hsGate        chan struct{} // dialing cells: the harness server starts its TLS handshake when this closes
	hsReleased    bool
	hsMode        string // dialing cells: how the server makes the handshake fail ("" = it does not)
	dialAtReturn  int32  // the calling goroutine saw a dial still in progress right after Proxy returned
	wedged        string // a relay goroutine was found spinning while the state was being established
	gens          map[[2]uint32]*grpcGen
	hsAbort       int32      // dialing cells: reset the TCP connection instead of handshaking
	hsDone        chan error // result of the server-side handshake
	delayByPush   bool       // the delayed direction is parked pushing into the peer's full output channel (no hook marker)
	srvObservable bool       // the server still reads: it will see the relay's close as EOF/reset
	cliAlive      bool
	srvAlive      bool // server can still write
	open          []uint32
	nextID        uint32
	pingN         int
}

func (s *session) sender(dir int) *Endpoint {
	if dir == C2S {
		return s.cli
	}
	return s.srv
}

func (s *session) receiver(dir int) *Endpoint {
	if dir == C2S {
		return s.srv
	}
	return s.cli
}

func sideByte(e *Endpoint) byte { return e.Name[0] }

func (s *session) ping(e *Endpoint) ([8]byte, error) {
	s.pingN++
	p := PingPayload(sideByte(e), s.pingN)
	return p, e.Ping(p)
}

// spinFuncs reduces "id|func,id|func" or "func,func" to the sorted distinct function names.
func spinFuncs(spin string) string {
	seen := map[string]bool{}
	var out []string
	for _, p := range strings.Split(spin, ",") {
		if i := strings.Index(p, "|"); i >= 0 {
			p = p[i+1:]
		}
		if p != "" && !seen[p] {
			seen[p] = true
			out = append(out, p)
		}
	}
	sort.Strings(out)
	return strings.Join(out, "+")
}

// dialInProgress: a goroutine of this Proxy call is still inside the TCP dial or the TLS handshake.
func dialInProgress(exclude map[string]bool) bool {
	for _, g := range vh.Goroutines() {
		if exclude[g.ID] || !g.Has("h2.(*Config).Proxy") {
			continue
		}
		if g.HasFrame("crypto/tls.(*Conn).Handshake") || g.HasFrame("crypto/tls.(*Conn).HandshakeContext") ||
			g.HasFrame("net.(*Dialer).Dial") || g.HasFrame("net.(*Dialer).DialContext") || g.HasFrame("net.DialTimeout") {
			return true
		}
	}
	return false
}

func isRelayG(g vh.G) bool {
	return g.HasFrame("h2.(*relay)") || g.HasFrame("h2.(*Config).Proxy") || g.HasFrame("h2.(*outputBuffer)")
}

func relayGoroutines(exclude map[string]bool) []vh.G {
	var out []vh.G
	for _, g := range vh.Goroutines() {
		if isRelayG(g) && !exclude[g.ID] {
			out = append(out, g)
		}
	}
	return out
}

func gStrings(gs []vh.G) []string {
	out := make([]string, 0, len(gs))
	for _, g := range gs {
		out = append(out, g.String())
	}
	sort.Strings(out)
	return out
}

// pushBlocked: the goroutine is parked inside emitEligibleFrames itself, i.e.
// on the push into an output channel (a plain send on the pinned tree, a
// select once pushes can be aborted).
func pushBlocked(g vh.G) bool {
	if !strings.HasPrefix(g.State, "chan send") && !strings.HasPrefix(g.State, "select") {
		return false
	}
	for _, f := range g.Funcs {
		if strings.HasPrefix(f, "runtime.") {
			continue
		}
		return strings.Contains(f, "emitEligibleFrames")
	}
	return false
}

func peerPush(g vh.G) bool {
	return g.HasFrame(".updateWindow") || g.HasFrame(".updateInitialWindowSize") || g.HasFrame(".sendQueuedFramesUnderWindowSize")
}

func (s *session) countPeerPushBlocked() int {
	n := 0
	for _, g := range relayGoroutines(s.base) {
		if pushBlocked(g) && peerPush(g) {
			n++
		}
	}
	return n
}

func (s *session) countPushBlocked() int {
	n := 0
	for _, g := range relayGoroutines(s.base) {
		if pushBlocked(g) {
			n++
		}
	}
	return n
}

// Unobservable reports whether, in this cell, the only goroutine that could observe the terminating
// event is the reader parked behind a blocked write (the relay has no reader running on that
// connection and no deadline). Those cells are shaped so that nothing else can end the session by
// luck: no post-event traffic, and a marker frame that is not forwarded.
func Unobservable(c Cell) bool {
	switch c.State {
	case "write-blocked":
		return c.Event == "client-close" || c.Event == "proto-error-client"
	case "client-write-blocked":
		return c.Event == "server-close" || c.Event == "proto-error-server"
	}
	return false
}

// writeBlockedSide: "upstream" / "client" if a session goroutine is blocked inside a Write toward that
// side while a reader is parked on a push (its output channel is full behind the blocked writer).
func writeBlockedSide(gs []vh.G) string {
	parked := false
	side := ""
	for _, g := range gs {
		if pushBlocked(g) {
			parked = true
		}
		switch {
		case g.HasFrame("crypto/tls.(*Conn).Write") && strings.HasPrefix(g.State, "IO wait"):
			side = "upstream"
		case g.HasFrame("vh.(*PipeConn).Write") && strings.HasPrefix(g.State, "sync.Cond.Wait"):
			if side == "" {
				side = "client"
			}
		}
	}
	if !parked {
		return ""
	}
	return side
}

// deadlockSig returns the deadlock signature if a session goroutine is parked
// pushing into an output channel, else "".
func deadlockSig(gs []vh.G) string {
	for _, g := range gs {
		if pushBlocked(g) {
			if peerPush(g) {
				return "C10:deadlock:peer-push-after-writer-exit"
			}
			return "C10:deadlock:push-into-own-output"
		}
	}
	return ""
}

// leftClass names where a leftover goroutine is parked: innermost martian
// function (closure suffix stripped) and what it is blocked on.
func leftClass(g vh.G) string {
	fn := "?"
	for _, f := range g.Funcs {
		if i := strings.Index(f, vh.MartianPkg+"/"); i >= 0 {
			f = f[i+len(vh.MartianPkg)+1:]
			if j := strings.Index(f, ".func"); j >= 0 {
				f = f[:j]
			}
			fn = f
			break
		}
	}
	on := strings.ReplaceAll(g.State, " ", "-")
	if !g.Blocked() {
		on = "spinning"
	}
	switch {
	case g.HasFrame("crypto/tls.(*Conn).Read"):
		on = "reading-upstream"
	case g.HasFrame("vh.(*PipeConn).Read"):
		on = "reading-client"
	case g.HasFrame("crypto/tls.(*Conn).Write"):
		on = "writing-upstream"
	case g.HasFrame("vh.(*PipeConn).Write"):
		on = "writing-client"
	}
	return fn + ":" + on
}

// martianFrames is the short form of a goroutine for messages.
func martianFrames(g vh.G) string {
	var fs []string
	for _, f := range g.Funcs {
		if i := strings.Index(f, vh.MartianPkg+"/"); i >= 0 {
			fs = append(fs, f[i+len(vh.MartianPkg)+1:])
		}
	}
	return "[" + g.State + "] " + strings.Join(fs, " < ")
}

func (s *session) activity() string {
	h := s.gates.Hits()
	var cf, sf int
	if s.cli != nil {
		cf = s.cli.Snapshot().Frames
	}
	var si, so int64
	if s.srv != nil {
		sf = s.srv.Snapshot().Frames
		si, so = atomic.LoadInt64(&s.srv.In), atomic.LoadInt64(&s.srv.Out)
	}
	return fmt.Sprint(s.cl.Sent(), s.cl.Received(), s.cc.ReadCalls(), s.cc.WriteCalls(), si, so, h, cf, sf)
}

func (s *session) hasReturned() bool { return atomic.LoadInt32(&s.returned) != 0 }

func (s *session) fail(format string, a ...interface{}) bool {
	s.res.Why = fmt.Sprintf(format, a...)
	if s.hasReturned() {
		s.res.Why += fmt.Sprintf(" (Proxy had already returned: %v)", s.proxyErr)
	}
	return false
}

// start brings up listener, pipe, Proxy goroutine and the accepted TLS conn.
func (s *session) start() bool {
	pk, err := GetPKI()
	if err != nil {
		return s.fail("pki: %v", err)
	}
	s.base = map[string]bool{}
	for _, g := range relayGoroutines(nil) {
		s.base[g.ID] = true
	}
	s.ln, err = net.Listen("tcp", "127.0.0.1:0")
	if err != nil {
		return s.fail("listen: %v", err)
	}
	pipeCap := 1 << 20
	if s.cell.State == "client-write-blocked" {
		pipeCap = 64 << 10 // a client with a small receive buffer
	}
	s.cc, s.cl = vh.Pipe(pipeCap, "10.9.8.7:40000", "10.1.1.1:443")
	s.closing = make(chan bool)
	s.gates = NewGates()
	s.proxyDone = make(chan struct{})
	s.cli = NewEndpoint("client", s.cl)
	s.cli.GiveUp = s.checkWedged
	s.cliAlive = true
	s.nextID = 1

	rawCh := make(chan *net.TCPConn, 1)
	s.hsDone = make(chan error, 1)
	if s.cell.State == "dialing" {
		s.hsGate = make(chan struct{})
	}
	gate := s.hsGate
	go func() {
		c, err := s.ln.Accept()
		if err != nil {
			s.hsDone <- err
			return
		}
		raw := c.(*net.TCPConn)
		if s.cell.State == "write-blocked" {
			// a small receive buffer: the relay's socket write blocks after a few hundred KiB
			raw.SetReadBuffer(16 << 10)
		}
		rawCh <- raw
		if gate != nil {
			<-gate
			if atomic.LoadInt32(&s.hsAbort) != 0 {
				raw.SetLinger(0)
				raw.Close()
				s.hsDone <- errors.New("harness server reset the connection instead of handshaking")
				return
			}
		}
		cert := pk.Leaf
		switch s.hsMode {
		case "handshake-fail-untrusted-cert":
			cert = pk.Untrusted
		case "handshake-fail-wrong-name":
			cert = pk.WrongName
		case "handshake-fail-garbage":
			// not TLS at all; the connection then stays open on the server side
			raw.Write([]byte("HTTP/1.1 400 Bad Request\r\nContent-Length: 0\r\n\r\n"))
			s.hsDone <- errors.New("harness server answered the ClientHello with plain text")
			return
		case "handshake-fail-server-closes":
			// reads (part of) the ClientHello, then closes in the middle of the handshake
			raw.Read(make([]byte, 64))
			raw.Close()
			s.hsDone <- errors.New("harness server closed in the middle of the handshake")
			return
		}
		tc := tls.Server(raw, &tls.Config{Certificates: []tls.Certificate{cert}, NextProtos: []string{"h2"}})
		if err := tc.Handshake(); err != nil {
			if s.hsMode == "" {
				raw.Close()
			} // else: the failure is the point; the server side stays open until teardown
			s.hsDone <- err
			return
		}
		s.tc = tc
		s.hsDone <- nil
	}()

	u := &url.URL{Scheme: "https", Host: s.ln.Addr().String(), Path: "/"}
	cfg := &h2.Config{RootCAs: pk.Pool, StreamProcessorFactories: ProcessorFactories(s.cell.Proc)}
	go func() {
		err := cfg.Proxy(s.closing, s.cc, u)
		s.fdAtReturn = -1
		if ino, _ := s.inodeV.Load().(string); ino != "" {
			s.fdAtReturn = 0
			if SocketOpen(ino) {
				s.fdAtReturn = 1
			}
		}
		// (after the descriptor probe: the dump allocates and may trigger a GC cycle)
		if s.cell.State == "dialing" && s.fdAtReturn == 1 && dialInProgress(s.base) {
			atomic.StoreInt32(&s.dialAtReturn, 1)
		}
		s.proxyErr = err
		atomic.StoreInt32(&s.returned, 1)
		close(s.proxyDone)
	}()

	select {
	case s.raw = <-rawCh:
	case err := <-s.hsDone:
		return s.fail("accept: %v", err)
	case <-time.After(WaitWatchdog):
		return s.fail("no upstream connection from the relay")
	}
	s.inode = SocketInode(s.raw.RemoteAddr(), s.raw.LocalAddr())
	if s.inode == "" {
		return s.fail("relay socket %v->%v not found in /proc/self/net/tcp", s.raw.RemoteAddr(), s.raw.LocalAddr())
	}
	s.inodeV.Store(s.inode)
	if s.hsGate != nil {
		return true // the handshake is completed (or aborted) by runDialing
	}
	return s.finishAccept()
}

// finishAccept waits for the server-side TLS handshake and starts the server endpoint.
func (s *session) finishAccept() bool {
	select {
	case err := <-s.hsDone:
		if err != nil {
			return s.fail("server handshake: %v", err)
		}
	case <-time.After(WaitWatchdog):
		return s.fail("server-side TLS handshake did not complete")
	}
	s.srv = NewEndpoint("server", s.tc)
	s.srv.GiveUp = s.checkWedged
	s.srv.StartServer()
	s.srvObservable, s.srvAlive = true, true
	return true
}

// handshake exchanges preface and SETTINGS and learns the reader goroutines.
func (s *session) handshake() bool {
	if err := s.cli.WriteRaw([]byte(ClientPreface)); err != nil {
		return s.fail("client preface: %v", err)
	}
	if err := s.cli.Settings(); err != nil {
		return s.fail("client settings: %v", err)
	}
	s.cli.Start()
	if !s.srv.Wait(func(o *Obs) bool { return o.Settings >= 1 }) {
		return s.fail("server never saw the client's SETTINGS")
	}
	if err := s.srv.Settings(); err != nil {
		return s.fail("server settings: %v", err)
	}
	if !s.cli.Wait(func(o *Obs) bool { return o.Settings >= 1 && o.SettingsAcks >= 1 }) {
		return s.fail("client never saw SETTINGS + ACK")
	}
	if !s.srv.Wait(func(o *Obs) bool { return o.SettingsAcks >= 1 }) {
		return s.fail("server never saw the SETTINGS ACK")
	}
	if !s.waitFor(s.gates.Learned) {
		return s.fail("reader hook point not reached by both directions (hits %v)", s.gates.Hits())
	}
	// PRNG pings around
	for _, e := range []*Endpoint{s.cli, s.srv} {
		for n := s.rng.Intn(3); n > 0; n-- {
			if !s.pingThrough(e) {
				return false
			}
		}
	}
	return true
}

func (s *session) other(e *Endpoint) *Endpoint {
	if e == s.cli {
		return s.srv
	}
	return s.cli
}

func (s *session) pingThrough(e *Endpoint) bool {
	p, err := s.ping(e)
	if err != nil {
		return s.fail("%s ping: %v", e.Name, err)
	}
	if !s.other(e).Wait(func(o *Obs) bool { return o.Pings[p] > 0 }) {
		return s.fail("%s ping was not relayed", e.Name)
	}
	return true
}

func (s *session) reqFields(id uint32, extra string) []hpack.HeaderField {
	if s.cell.Proc == "grpc" {
		return ReqFields(int(id), extra, hpack.HeaderField{Name: "content-type", Value: "application/grpc"},
			hpack.HeaderField{Name: "te", Value: "trailers"})
	}
	return ReqFields(int(id), extra)
}

func (s *session) resFields(extra string) []hpack.HeaderField {
	if s.cell.Proc == "grpc" {
		return ResFields(extra, "application/grpc")
	}
	return ResFields(extra, "application/octet-stream")
}

// chunk returns the payload of the next DATA frame of stream id in direction dir: with the gRPC
// adapter installed, the next piece of a gRPC-framed byte stream cut at a structural boundary;
// otherwise 1..max stamped bytes.
func (s *session) chunk(dir int, id uint32, max int) []byte {
	if s.cell.Proc != "grpc" {
		return s.payload(max)
	}
	return s.gen(dir, id).next()
}

func (s *session) gen(dir int, id uint32) *grpcGen {
	if s.gens == nil {
		s.gens = map[[2]uint32]*grpcGen{}
	}
	k := [2]uint32{uint32(dir), id}
	if s.gens[k] == nil {
		s.gens[k] = newGrpcGen(s.rng)
	}
	return s.gens[k]
}

// body sends the body of a complete message on stream id: DATA frames, the last with END_STREAM.
func (s *session) body(dir int, id uint32) error {
	e := s.sender(dir)
	if s.cell.Proc != "grpc" {
		return e.Data(id, true, s.payload(2000))
	}
	g := s.gen(dir, id)
	for n := 1 + s.rng.Intn(3); n > 0; n-- {
		if err := e.Data(id, false, g.next()); err != nil {
			return err
		}
	}
	return e.Data(id, true, g.finish())
}

// checkWedged is the give-up probe of the harness waits: a goroutine of the session spinning in
// place with nothing else moving means that what is awaited will not happen.
func (s *session) checkWedged() bool {
	if w := spinningNow(s.activity, s.base); w != "" {
		s.wedged = spinFuncs(w)
		return true
	}
	return false
}

func (s *session) waitFor(fn func() bool) bool { return WaitForOr(fn, s.checkWedged) }

func (s *session) payload(max int) []byte {
	n := 1 + s.rng.Intn(max)
	return vh.Stamp(uint32(s.rng.Intn(1<<20)), n)
}

func (s *session) newID() uint32 {
	id := s.nextID
	s.nextID += 2
	return id
}

// exchange runs one complete request/response on a fresh stream.
func (s *session) exchange() bool {
	id := s.newID()
	if s.rng.Intn(3) == 0 {
		if err := s.cli.Headers(id, true, s.reqFields(id, "bodyless")); err != nil {
			return s.fail("exchange: %v", err)
		}
	} else {
		if err := s.cli.Headers(id, false, s.reqFields(id, "body")); err != nil {
			return s.fail("exchange: %v", err)
		}
		if err := s.body(C2S, id); err != nil {
			return s.fail("exchange: %v", err)
		}
	}
	if !s.srv.Wait(func(o *Obs) bool { return o.EndStream[id] }) {
		return s.fail("exchange: request on stream %d did not arrive", id)
	}
	if err := s.srv.Headers(id, false, s.resFields("ok")); err != nil {
		return s.fail("exchange: %v", err)
	}
	if err := s.body(S2C, id); err != nil {
		return s.fail("exchange: %v", err)
	}
	if !s.cli.Wait(func(o *Obs) bool { return o.EndStream[id] }) {
		return s.fail("exchange: response on stream %d did not arrive", id)
	}
	return true
}

// openStream opens a stream in both directions (HEADERS without END_STREAM).
func (s *session) openStream() (uint32, bool) {
	id := s.newID()
	if err := s.cli.Headers(id, false, s.reqFields(id, "open")); err != nil {
		return 0, s.fail("open: %v", err)
	}
	if !s.srv.Wait(func(o *Obs) bool { return o.Headers[id] >= 1 }) {
		return 0, s.fail("open: request headers on stream %d did not arrive", id)
	}
	if err := s.srv.Headers(id, false, s.resFields("open")); err != nil {
		return 0, s.fail("open: %v", err)
	}
	if !s.cli.Wait(func(o *Obs) bool { return o.Headers[id] >= 1 }) {
		return 0, s.fail("open: response headers on stream %d did not arrive", id)
	}
	s.open = append(s.open, id)
	return id, true
}

func (s *session) establishIdle() bool {
	n := s.rng.Intn(3)
	s.res.Params["exchanges_before"] = n
	for i := 0; i < n; i++ {
		if !s.exchange() {
			return false
		}
	}
	return true
}

func (s *session) establishMid() bool {
	if s.rng.Intn(2) == 0 && !s.exchange() {
		return false
	}
	n := 1 + s.rng.Intn(3)
	type want struct {
		e  *Endpoint
		id uint32
		n  int
	}
	var wants []want
	for i := 0; i < n; i++ {
		id, ok := s.openStream()
		if !ok {
			return false
		}
		for dir := 0; dir < 2; dir++ {
			k := s.rng.Intn(6)
			if s.cell.Proc == "grpc" {
				k = 4 + s.rng.Intn(3) // every kind of cut at least once per stream and direction
			}
			for j := 0; j < k; j++ {
				b := s.chunk(dir, id, 1500)
				if err := s.sender(dir).Data(id, false, b); err != nil {
					return s.fail("mid-stream data: %v", err)
				}
			}
			wants = append(wants, want{s.receiver(dir), id, k})
		}
	}
	waitAll := s.rng.Intn(2) == 0
	if s.cell.Proc == "grpc" {
		waitAll = false // the adapter re-frames DATA by message: frame counts are not comparable
	}
	s.res.Params["open_streams"] = n
	s.res.Params["data_awaited"] = waitAll
	if waitAll {
		for _, w := range wants {
			w := w
			if !w.e.Wait(func(o *Obs) bool { return o.DataFrames[w.id] >= w.n }) {
				return s.fail("mid-stream: data on stream %d did not arrive at the %s", w.id, w.e.Name)
			}
		}
	}
	return true
}

// Blocking modes of one direction in the "blocked" state.
const (
	modeNone       = ""
	modeZeroWindow = "stream-window-0"   // receiver announced INITIAL_WINDOW_SIZE=0
	modeConnWindow = "connection-window" // receiver never returned connection credit: 65535 bytes used up
)

// establishBlocked queues DATA inside the relay behind flow control in the
// chosen direction(s): either behind a zero stream window or behind an
// exhausted connection window. It returns the blocking mode per direction.
func (s *session) establishBlocked(delay int) ([2]string, bool) {
	var mode [2]string
	peer := 1 - delay
	pick := func() string {
		if s.rng.Intn(3) == 0 {
			return modeConnWindow
		}
		return modeZeroWindow
	}
	switch x := s.rng.Intn(8); {
	case x < 5:
		mode[0], mode[1] = pick(), pick()
	case x < 7:
		mode[peer] = pick()
	default:
		mode[delay] = pick()
	}
	for dir := 0; dir < 2; dir++ {
		if mode[dir] != modeZeroWindow {
			continue
		}
		rcv, snd := s.receiver(dir), s.sender(dir)
		acks := rcv.Snapshot().SettingsAcks
		if err := rcv.Settings(http2.Setting{ID: http2.SettingInitialWindowSize, Val: 0}); err != nil {
			return mode, s.fail("blocked: settings: %v", err)
		}
		if !snd.Wait(func(o *Obs) bool { return o.LastIWS == 0 }) {
			return mode, s.fail("blocked: INITIAL_WINDOW_SIZE=0 was not relayed to the %s", snd.Name)
		}
		if !rcv.Wait(func(o *Obs) bool { return o.SettingsAcks > acks }) {
			return mode, s.fail("blocked: no SETTINGS ACK at the %s", rcv.Name)
		}
	}
	// stream A carries the bytes that use up a connection window, stream B the
	// frames that end up queued.
	idA, ok := s.openStream()
	if !ok {
		return mode, false
	}
	idB, ok := s.openStream()
	if !ok {
		return mode, false
	}
	queued := [2]int{}
	for dir := 0; dir < 2; dir++ {
		if mode[dir] == modeNone {
			continue
		}
		rcv, snd := s.receiver(dir), s.sender(dir)
		if mode[dir] == modeConnWindow {
			for left := 65535; left > 0; {
				n := 16384
				if n > left {
					n = left
				}
				left -= n
				if err := snd.Data(idA, false, vh.Stamp(uint32(dir), n)); err != nil {
					return mode, s.fail("blocked: data: %v", err)
				}
			}
			if !rcv.Wait(func(o *Obs) bool { return o.DataBytes[idA] >= 65535 }) {
				return mode, s.fail("blocked: the 65535 window-filling bytes did not arrive at the %s", rcv.Name)
			}
			// the relay returns the credit for what it accepted; only then may the sender go on
			if !snd.Wait(func(o *Obs) bool { return o.WUConn >= 65535 }) {
				return mode, s.fail("blocked: the relay did not return connection credit to the %s", snd.Name)
			}
		}
		q := 1 + s.rng.Intn(15)
		if s.rng.Intn(4) != 0 {
			q = 16 + s.rng.Intn(25)
		}
		before := rcv.Snapshot().TotalData
		for j := 0; j < q; j++ {
			if err := snd.Data(idB, false, s.payload(200)); err != nil {
				return mode, s.fail("blocked: data: %v", err)
			}
		}
		p, err := s.ping(snd)
		if err != nil {
			return mode, s.fail("blocked: ping: %v", err)
		}
		if !rcv.Wait(func(o *Obs) bool { return o.Pings[p] > 0 }) {
			return mode, s.fail("blocked: barrier ping did not arrive at the %s", rcv.Name)
		}
		if got := rcv.Snapshot().TotalData; got != before {
			return mode, s.fail("blocked: %d DATA frames passed a closed window (%s)", got-before, mode[dir])
		}
		queued[dir] = q
	}
	s.res.Params["blocked_c2s_frames"] = queued[C2S]
	s.res.Params["blocked_s2c_frames"] = queued[S2C]
	s.res.Params["blocked_c2s_mode"] = mode[C2S]
	s.res.Params["blocked_s2c_mode"] = mode[S2C]
	return mode, true
}

// establishChanFull gates the writers and fills the output channel of one
// direction (sometimes both): one frame in the writer's hand + 15 in the
// channel, optionally with the reader parked on a further push.
func (s *session) establishChanFull(delay int) bool {
	// For the "both sides go away" events the frames in flight are (at least) those of the
	// direction whose source closes first.
	must := -1
	switch s.cell.Event {
	case "server-then-client-close":
		must = S2C
	case "client-then-server-close":
		must = C2S
	}
	// the two ways of filling alternate over the enumeration (a fixed half each)
	cellNo, rep := s.cell.Idx%128, s.cell.Idx/128
	if s.rng.Intn(2); (cellNo/2+rep)%2 == 1 {
		return s.establishChanFullViaPeer(delay, must)
	}
	id, ok := s.openStream()
	if !ok {
		return false
	}
	// A second, short stream ends inside the queue: its END_STREAM frame has the frames of the long
	// stream queued up behind it. It is not used for anything else afterwards.
	short, ok := s.openStream()
	if !ok {
		return false
	}
	s.open = s.open[:len(s.open)-1]
	var fill [2]bool
	if s.rng.Intn(4) == 0 {
		fill[0], fill[1] = true, true
	} else if x := s.rng.Intn(4); must >= 0 {
		fill[must] = true
	} else if x == 0 {
		fill[delay] = true
	} else {
		fill[1-delay] = true // mostly the direction that is not held at the hook: its reader can be parked on a push
	}
	var over [2]int
	for dir := 0; dir < 2; dir++ {
		if fill[dir] && dir != delay {
			over[dir] = s.rng.Intn(7)
		}
	}
	var before [2]int
	for dir := 0; dir < 2; dir++ {
		before[dir] = s.receiver(dir).Snapshot().TotalData
	}
	s.gates.ArmWriters()
	nfill, nover, total := 0, 0, 0
	for dir := 0; dir < 2; dir++ {
		if !fill[dir] {
			continue
		}
		nfill++
		if over[dir] > 0 {
			nover++
		}
		total += 16 + over[dir]
		// position of the short stream's last frame: while the reader will still be parked on a push
		// when the writer gets to it (< over), else anywhere in the first 16
		// Position of the short stream's last frame. With a reader parked on a push, mostly position 0:
		// the frame the writer holds while the channel fills up behind it, so that the reader is
		// certainly still parked when the writer has written it; else anywhere in the first 16.
		endAt := s.rng.Intn(16)
		if x := s.rng.Intn(4); over[dir] > 0 && x != 0 {
			endAt = 0
		}
		s.res.Params["end_stream_at_queue_position_"+DirName(dir)] = endAt
		for j := 0; j < 16+over[dir]; j++ {
			var err error
			if j == endAt {
				err = s.sender(dir).Data(short, true, s.payload(50))
			} else {
				err = s.sender(dir).Data(id, false, s.payload(50))
			}
			if err != nil {
				return s.fail("chan-full: data: %v", err)
			}
		}
	}
	if !WaitFor(func() bool { return s.gates.WritersWaiting() >= nfill }) {
		return s.fail("chan-full: writer hook point reached by %d writers, want %d", s.gates.WritersWaiting(), nfill)
	}
	if nover > 0 && !WaitFor(func() bool { return s.countPushBlocked() >= nover }) {
		return s.fail("chan-full: %d readers parked pushing frame 17, want %d", s.countPushBlocked(), nover)
	}
	for dir := 0; dir < 2; dir++ {
		if !fill[dir] || over[dir] > 0 || dir == delay {
			// over > 0: reader observed parked on the push.
			// dir == delay: the delay marker reaching the reader point proves that all 16 frames were pushed.
			continue
		}
		p, err := s.ping(s.sender(dir))
		if err != nil {
			return s.fail("chan-full: ping: %v", err)
		}
		if !s.receiver(dir).Wait(func(o *Obs) bool { return o.Pings[p] > 0 }) {
			return s.fail("chan-full: barrier ping did not arrive (reader parked too early?)")
		}
	}
	for dir := 0; dir < 2; dir++ {
		if got := s.receiver(dir).Snapshot().TotalData; got != before[dir] {
			return s.fail("chan-full: %d DATA frames passed the gated writer", got-before[dir])
		}
	}
	if w := s.gates.WritersWaiting(); w != nfill {
		return s.fail("chan-full: %d writers parked, want exactly %d", w, nfill)
	}
	var names []string
	for dir := 0; dir < 2; dir++ {
		if fill[dir] {
			names = append(names, DirName(dir))
		}
	}
	s.res.Params["filled_dirs"] = strings.Join(names, "+")
	s.res.Params["frames_behind_gated_writer"] = total
	s.res.Params["readers_parked_on_push"] = nover
	return true
}

// establishChanFullViaPeer fills the output channel of direction F from the
// *peer's* reader: F's DATA is first queued behind a zero stream window, the
// writers are gated, then F's receiver opens the window. The peer direction
// (which reads that WINDOW_UPDATE) flushes the backlog into F's output: one
// frame in F's writer's hand, 15 in the channel, and the peer's reader parks on
// the 17th push, holding F's flowMu. That push is *in progress* when the
// terminating event happens. If the delayed direction is the peer, it is
// delayed by that parked push (no hook marker is possible); if it is F, F's
// reader is parked at the hook point as usual.
func (s *session) establishChanFullViaPeer(delay, must int) bool {
	f := s.rng.Intn(2)
	if must >= 0 {
		f = must
	}
	peer := 1 - f
	rcv, snd := s.receiver(f), s.sender(f)
	acks := rcv.Snapshot().SettingsAcks
	if err := rcv.Settings(http2.Setting{ID: http2.SettingInitialWindowSize, Val: 0}); err != nil {
		return s.fail("chan-full/peer: settings: %v", err)
	}
	if !snd.Wait(func(o *Obs) bool { return o.LastIWS == 0 }) {
		return s.fail("chan-full/peer: INITIAL_WINDOW_SIZE=0 was not relayed to the %s", snd.Name)
	}
	if !rcv.Wait(func(o *Obs) bool { return o.SettingsAcks > acks }) {
		return s.fail("chan-full/peer: no SETTINGS ACK at the %s", rcv.Name)
	}
	id, ok := s.openStream()
	if !ok {
		return false
	}
	q := 40 + s.rng.Intn(25)
	before := rcv.Snapshot().TotalData
	for j := 0; j < q; j++ {
		if err := snd.Data(id, false, s.payload(100)); err != nil {
			return s.fail("chan-full/peer: data: %v", err)
		}
	}
	p, err := s.ping(snd)
	if err != nil {
		return s.fail("chan-full/peer: ping: %v", err)
	}
	if !rcv.Wait(func(o *Obs) bool { return o.Pings[p] > 0 }) {
		return s.fail("chan-full/peer: barrier ping did not arrive at the %s", rcv.Name)
	}
	if got := rcv.Snapshot().TotalData; got != before {
		return s.fail("chan-full/peer: %d DATA frames passed a zero window", got-before)
	}
	s.gates.ArmWriters()
	// the receiver opens the window: stream WINDOW_UPDATE, or SETTINGS raising the initial window
	flush := "window-update"
	if s.rng.Intn(3) == 0 {
		flush = "settings-raising-window"
		err = rcv.Settings(http2.Setting{ID: http2.SettingInitialWindowSize, Val: 1 << 20})
	} else {
		err = rcv.WindowUpdate(id, 1<<20)
	}
	if err != nil {
		return s.fail("chan-full/peer: flush: %v", err)
	}
	if !WaitFor(func() bool { return s.gates.WritersWaiting() >= 1 }) {
		return s.fail("chan-full/peer: writer hook point never reached")
	}
	if !WaitFor(func() bool { return s.countPeerPushBlocked() >= 1 }) {
		return s.fail("chan-full/peer: the %s reader never parked pushing into the peer's output", DirName(peer))
	}
	if got := rcv.Snapshot().TotalData; got != before {
		return s.fail("chan-full/peer: %d DATA frames passed the gated writer", got-before)
	}
	if w := s.gates.WritersWaiting(); w != 1 {
		return s.fail("chan-full/peer: %d writers parked, want exactly 1", w)
	}
	s.delayByPush = delay == peer
	s.res.Params["filled_dirs"] = DirName(f)
	s.res.Params["filled_by"] = "peer reader (" + DirName(peer) + ") flushing a flow-control backlog on " + flush
	s.res.Params["frames_behind_gated_writer"] = q
	s.res.Params["readers_parked_on_push"] = 1
	return true
}

// establishWriteBlocked: the server grants large windows and then stops
// reading while the client uploads. The upload goes on (within the credit the
// relay returns) until the relay's client->server writer goroutine is blocked
// in the socket write toward the server, its output channel is full and its
// reader is parked on the next push - all observed in the goroutine dump.
func (s *session) establishWriteBlocked(delay int) bool {
	const big = 1 << 30
	if err := s.srv.Settings(http2.Setting{ID: http2.SettingInitialWindowSize, Val: big}); err != nil {
		return s.fail("write-blocked: settings: %v", err)
	}
	if err := s.srv.WindowUpdate(0, big-65535); err != nil {
		return s.fail("write-blocked: window update: %v", err)
	}
	if !s.pingThrough(s.srv) { // the relay has processed both
		return false
	}
	id, ok := s.openStream()
	if !ok {
		return false
	}
	s.srv.Pause()
	s.srvObservable = false // it will never read the relay's close
	chunk := vh.Stamp(7, 16384)
	sent := int64(0)
	start := time.Now()
	writerBlocked := func() bool {
		w, p := false, false
		for _, g := range relayGoroutines(s.base) {
			if g.HasFrame("crypto/tls.(*Conn).Write") && strings.HasPrefix(g.State, "IO wait") {
				w = true
			}
			if pushBlocked(g) {
				p = true
			}
		}
		return w && p
	}
	for {
		var credit int64
		s.cli.Look(func(o *Obs) bool {
			credit = 65535 + o.WUConn - sent
			if c := 65535 + o.WUStream[id] - sent; c < credit {
				credit = c
			}
			return true
		})
		if credit >= int64(len(chunk)) {
			if err := s.cli.Data(id, false, chunk); err != nil {
				return s.fail("write-blocked: upload: %v", err)
			}
			sent += int64(len(chunk))
			continue
		}
		// no credit: the relay has stopped reading (or is about to return some)
		if writerBlocked() {
			break
		}
		if time.Since(start) > WaitWatchdog {
			return s.fail("write-blocked: after %d bytes the relay's writer is not blocked in the socket write with its reader parked", sent)
		}
		time.Sleep(500 * time.Microsecond)
	}
	s.delayByPush = delay == C2S
	s.res.Params["uploaded_bytes_until_stall"] = sent
	s.res.Params["readers_parked_on_push"] = 1
	return true
}

// establishClientWriteBlocked is the mirror image: the client grants large
// windows and then stops reading (64 KiB pipe) while the server sends. The
// download goes on within the credit the relay returns to the server until
// the server->client writer goroutine is blocked in Write(cc), its output
// channel is full and its reader is parked on the next push.
func (s *session) establishClientWriteBlocked(delay int) bool {
	const big = 1 << 30
	if err := s.cli.Settings(http2.Setting{ID: http2.SettingInitialWindowSize, Val: big}); err != nil {
		return s.fail("client-write-blocked: settings: %v", err)
	}
	if err := s.cli.WindowUpdate(0, big-65535); err != nil {
		return s.fail("client-write-blocked: window update: %v", err)
	}
	if !s.pingThrough(s.cli) { // the relay has processed both
		return false
	}
	id, ok := s.openStream()
	if !ok {
		return false
	}
	s.cli.Pause()
	chunk := vh.Stamp(9, 16384)
	sent := int64(0)
	start := time.Now()
	for {
		var credit int64
		s.srv.Look(func(o *Obs) bool {
			credit = 65535 + o.WUConn - sent
			if c := 65535 + o.WUStream[id] - sent; c < credit {
				credit = c
			}
			return true
		})
		if credit >= int64(len(chunk)) {
			if err := s.srv.Data(id, false, chunk); err != nil {
				return s.fail("client-write-blocked: download: %v", err)
			}
			sent += int64(len(chunk))
			continue
		}
		if writeBlockedSide(relayGoroutines(s.base)) == "client" {
			break
		}
		if time.Since(start) > WaitWatchdog {
			return s.fail("client-write-blocked: after %d bytes the relay's writer is not blocked in Write(cc) with its reader parked", sent)
		}
		time.Sleep(500 * time.Microsecond)
	}
	s.delayByPush = delay == S2C
	s.res.Params["downloaded_bytes_until_stall"] = sent
	s.res.Params["readers_parked_on_push"] = 1
	return true
}

// runDialing: the session ends while the upstream TLS handshake is still in
// progress (the harness server has accepted the TCP connection but has not
// started its handshake yet).
func (s *session) runDialing() {
	s.srvObservable = false
	switch s.cell.Event {
	case "closing":
		// the client has already sent its preface: once the dial completes nothing else is awaited
		s.cli.WriteRaw([]byte(ClientPreface))
		s.cli.Settings()
		s.cli.Start()
		s.res.Established = true
		close(s.closing)
		s.closed = true
	case "client-close":
		k := s.rng.Intn(len(ClientPreface) + 1)
		s.res.Params["preface_bytes_before_close"] = k
		if k > 0 {
			s.cli.WriteRaw([]byte(ClientPreface[:k]))
		}
		s.res.Established = true
		s.cl.Close()
		s.cliAlive = false
	case "write-fail-server":
		// the server resets the connection instead of completing the handshake
		s.cli.WriteRaw([]byte(ClientPreface))
		s.cli.Settings()
		s.cli.Start()
		s.res.Established = true
		atomic.StoreInt32(&s.hsAbort, 1)
	case "handshake-fail-untrusted-cert", "handshake-fail-wrong-name", "handshake-fail-garbage", "handshake-fail-server-closes":
		s.cli.WriteRaw([]byte(ClientPreface))
		s.cli.Settings()
		s.cli.Start()
		s.res.Established = true
		s.hsMode = s.cell.Event
	default:
		s.fail("event %q not defined for the dialing state", s.cell.Event)
		return
	}
	if s.hasReturned() {
		s.res.Params["returned_before_handshake_completed"] = true
	}
	vh.Settle(s.activity, 3, 15*time.Millisecond, 5*time.Second)
	s.releaseHandshake()
	// the handshake outcome is the server's business; if it completed, the server reads on
	select {
	case err := <-s.hsDone:
		if err == nil {
			s.srv = NewEndpoint("server", s.tc)
			s.srv.StartServer()
			s.srvObservable = true
		} else {
			s.res.Params["server_handshake"] = err.Error()
		}
	case <-time.After(WaitWatchdog):
		s.res.Established = false
		s.fail("dialing: server-side handshake neither completed nor failed")
		return
	}
	s.oracle()
}

// armDelay parks direction dir at the reader point holding a marker frame.
func (s *session) armDelay(dir int, blocked [2]string) bool {
	if s.delayByPush {
		// observed parked in the goroutine dump when the state was established
		s.res.Params["delay_marker"] = "parked-on-push"
		return true
	}
	src := s.sender(dir)
	s.gates.ArmDelay(dir)
	kind := "ping"
	peer := 1 - dir
	switch s.cell.State {
	case "blocked":
		// mostly: the frame that opens the peer direction's queue (so that the
		// delayed direction pushes the queued frames into the peer's output)
		if blocked[peer] != modeNone && s.rng.Intn(4) != 0 {
			switch {
			case blocked[peer] == modeConnWindow:
				kind = "connection-window-update-opening-peer-queue"
			case s.rng.Intn(2) == 0:
				kind = "settings-raising-window-opening-peer-queue"
			default:
				kind = "window-update-opening-peer-queue"
			}
		}
	case "mid-stream", "chan-full":
		switch s.rng.Intn(3) {
		case 0:
			kind = "window-update"
		}
		if s.cell.State == "chan-full" {
			// a fixed half of the chan-full cells: the delayed direction holds a WINDOW_UPDATE, i.e.
			// a frame that needs the peer's flow-control lock once released
			kind = "ping"
			if cellNo, rep := s.cell.Idx%128, s.cell.Idx/128; (cellNo/4+rep)%2 == 0 {
				kind = "window-update"
			}
		}
	}
	if Unobservable(s.cell) {
		kind = "window-update" // consumed by the relay, never forwarded
	}
	var err error
	switch kind {
	case "ping":
		_, err = s.ping(src)
	case "window-update":
		id := uint32(0)
		if len(s.open) > 0 && s.rng.Intn(2) == 0 {
			id = s.open[s.rng.Intn(len(s.open))]
		}
		err = src.WindowUpdate(id, uint32(1+s.rng.Intn(1000)))
	case "window-update-opening-peer-queue":
		err = src.WindowUpdate(s.open[len(s.open)-1], 1<<20)
	case "connection-window-update-opening-peer-queue":
		err = src.WindowUpdate(0, 1<<20)
	case "settings-raising-window-opening-peer-queue":
		err = src.Settings(http2.Setting{ID: http2.SettingInitialWindowSize, Val: 65535})
	}
	if err != nil {
		return s.fail("delay marker: %v", err)
	}
	if !s.waitFor(s.gates.DelayHit) {
		return s.fail("delay: direction %s never reached the reader hook point", DirName(dir))
	}
	s.res.Params["delay_marker"] = kind
	return true
}

// fire produces the terminating event (and, for write failures, the traffic
// that makes the relay attempt the failing write).
func (s *session) fire() bool {
	ev := s.cell.Event
	switch ev {
	case "client-close":
		s.cl.Close()
		s.cliAlive = false
	case "server-close":
		if s.rng.Intn(2) == 0 {
			s.res.Params["server_close"] = "half (close_notify+FIN, keeps reading)"
			s.tc.CloseWrite()
		} else {
			s.res.Params["server_close"] = "full"
			s.srvObservable = false
			s.tc.Close()
		}
		s.srvAlive = false
	case "write-fail-client":
		s.cc.FailWrites(errInjected)
		var trig []string
		x := 1 + s.rng.Intn(3) // bit0: server ping, bit1: client data
		if len(s.open) == 0 || s.cell.State == "write-blocked" || s.cell.State == "client-write-blocked" {
			x = 1 // (write-blocked: the relay no longer reads the client)
		}
		if x&2 != 0 {
			// the relay acknowledges client DATA with WINDOW_UPDATEs toward the client
			id := s.open[s.rng.Intn(len(s.open))]
			if err := s.cli.Data(id, false, s.chunk(C2S, id, 100)); err != nil {
				return s.fail("trigger: %v", err)
			}
			trig = append(trig, "client-data(window-update toward client)")
		}
		if x&1 != 0 {
			if _, err := s.ping(s.srv); err != nil {
				return s.fail("trigger: %v", err)
			}
			trig = append(trig, "server-ping")
		}
		s.res.Params["trigger"] = trig
	case "write-fail-server":
		s.srvObservable, s.srvAlive = false, false
		s.raw.SetLinger(0)
		s.raw.Close()
		var trig []string
		// (client-write-blocked: client DATA would have to be acknowledged toward the client, which
		// parks the client->server reader on the blocked writer's lock before it reaches the PING;
		// the trigger there is the PING alone, see notes/C10.md)
		if x := s.rng.Intn(2); len(s.open) > 0 && x == 0 && s.cell.State != "client-write-blocked" {
			id := s.open[s.rng.Intn(len(s.open))]
			if err := s.cli.Data(id, false, s.chunk(C2S, id, 100)); err != nil {
				return s.fail("trigger: %v", err)
			}
			trig = append(trig, "client-data")
		}
		if _, err := s.ping(s.cli); err != nil {
			return s.fail("trigger: %v", err)
		}
		trig = append(trig, "client-ping")
		s.res.Params["trigger"] = trig
	case "proto-error-client", "proto-error-server":
		bf := badFrames[s.rng.Intn(len(badFrames))]
		e := s.cli
		if ev == "proto-error-server" {
			e = s.srv
		}
		s.res.Params["malformed"] = bf.name
		if err := e.RawFrame(bf.t, bf.flags, bf.id, bf.payload); err != nil {
			return s.fail("malformed frame: %v", err)
		}
	case "closing":
		close(s.closing)
		s.closed = true
	case "server-then-client-close":
		// the server closes cleanly (the relay reads EOF), then the client goes away too
		if s.rng.Intn(2) == 0 {
			s.res.Params["server_close"] = "half (close_notify+FIN, keeps reading)"
			s.tc.CloseWrite()
		} else {
			s.res.Params["server_close"] = "full"
			s.srvObservable = false
			s.tc.Close()
		}
		s.srvAlive = false
		vh.Settle(s.activity, 2, 10*time.Millisecond, 2*time.Second)
		if x := s.rng.Intn(2); s.cell.Delay == "c2s" || (s.cell.Delay != "s2c" && x == 0) {
			s.res.Params["then"] = "client closes"
			s.cl.Close()
			s.cliAlive = false
		} else {
			s.res.Params["then"] = "writes toward the client fail"
			s.cc.FailWrites(errInjected)
		}
	case "client-then-server-close":
		// the client closes cleanly (the relay reads EOF), then the server goes away too
		s.cl.Close()
		s.cliAlive = false
		vh.Settle(s.activity, 2, 10*time.Millisecond, 2*time.Second)
		s.srvObservable, s.srvAlive = false, false
		// both variants in every run: reset in the delay=c2s cell, clean close in the delay=s2c cell
		if x := s.rng.Intn(2); s.cell.Delay == "c2s" || (s.cell.Delay != "s2c" && x == 0) {
			s.res.Params["then"] = "server resets"
			s.raw.SetLinger(0)
			s.raw.Close()
		} else {
			s.res.Params["then"] = "server closes"
			s.tc.Close()
		}
	default:
		return s.fail("unknown event %q", ev)
	}
	return true
}

// postTraffic lets the surviving endpoints say a little more (errors ignored).
func (s *session) postTraffic() {
	if s.rng.Intn(3) != 0 || Unobservable(s.cell) {
		s.res.Params["post_event_traffic"] = false
		return
	}
	s.res.Params["post_event_traffic"] = true
	if s.cliAlive {
		for n := 1 + s.rng.Intn(2); n > 0; n-- {
			s.ping(s.cli)
		}
	}
	if s.srvAlive {
		for n := 1 + s.rng.Intn(2); n > 0; n-- {
			s.ping(s.srv)
		}
	}
}

func (s *session) violate(sig, what string, w map[string]interface{}) {
	if w == nil {
		w = map[string]interface{}{}
	}
	w["params"] = s.res.Params
	s.res.Viols = append(s.res.Viols, Viol{Sig: sig, What: what, Witness: w})
}

// oracle: Proxy returned; upstream closed at return; after the caller closes
// cc, no session goroutine remains.
func (s *session) oracle() {
	ev := s.cell.Event
	sigNoReturn := func(spin string) string {
		if spin != "" {
			return "C10:no-return:spinning:" + spinFuncs(spin)
		}
		gs := relayGoroutines(s.base)
		if side := writeBlockedSide(gs); side != "" {
			return "C10:no-return:" + ev + ":" + side + "-write-blocked"
		}
		if d := deadlockSig(gs); d != "" {
			return d
		}
		return "C10:no-return:" + ev
	}
	out, spin := s.budget.await(s.hasReturned, s.activity, s.base, sigNoReturn)
	switch out {
	case vh.Undecided:
		s.res.Undecided = "waiting for Proxy to return"
		return
	case vh.Stuck:
		gs := relayGoroutines(s.base)
		sig := sigNoReturn(spin)
		what := "Proxy did not return after " + ev + " in state " + s.cell.State + ": every session goroutine is parked and no byte moves"
		if strings.HasSuffix(sig, "-write-blocked") {
			what = "Proxy did not return after " + ev + " in state " + s.cell.State + ": a writer goroutine is blocked in a Write toward a peer that no longer reads, its reader is parked behind it"
		}
		if strings.HasPrefix(sig, "C10:deadlock:") {
			what = "Proxy did not return after " + ev + " in state " + s.cell.State + ": a relay goroutine is parked pushing into an output channel that nobody drains"
		}
		if spin != "" {
			what = "Proxy did not return after " + ev + " in state " + s.cell.State + ": no byte moves, every other session goroutine is parked and the same goroutine keeps running in " + spin + " (busy loop)"
		}
		s.violate(sig, what, map[string]interface{}{"session_goroutines": gStrings(gs), "activity": s.activity(), "spinning": spin})
		return
	}
	s.res.Returned = true
	s.res.Params["proxy_error"] = fmt.Sprint(s.proxyErr)

	// clause 2: upstream closed when Proxy returns
	srvEnded := func() bool {
		if s.srv == nil {
			return false
		}
		d, _ := s.srv.ReadEnded()
		return d
	}
	srvErr := func() string {
		if s.srv == nil {
			return ""
		}
		_, e := s.srv.ReadEnded()
		return e
	}
	sigOpen := "C10:upstream-not-closed:after-return"
	if s.cell.State == "preface" {
		sigOpen = "C10:upstream-not-closed:preface-error"
	}
	if s.cell.State == "dialing" {
		sigOpen = "C10:upstream-not-closed:dial-failed"
	}
	fdAtReturn := s.fdAtReturn
	if s.cell.State == "dialing" && fdAtReturn == 1 && atomic.LoadInt32(&s.dialAtReturn) != 0 {
		// Proxy may return while the connection is still being established (the statement speaks of
		// the connection "it opened"); it must then be closed as soon as it has been opened. Here the
		// close is awaited instead of being demanded at the instant of the return.
		sigOpen = "C10:upstream-not-closed:ended-during-dial"
		s.res.Params["relay_socket_fd_open_at_return"] = true
		out, _ = s.budget.await(func() bool { return !SocketOpen(s.inode) }, s.activity, s.base, func(string) string { return sigOpen })
		switch out {
		case vh.Undecided:
			s.res.Undecided = "waiting for the upstream connection of an abandoned dial to be closed"
			return
		case vh.Happened:
			fdAtReturn = 0
		}
	}
	switch fdAtReturn {
	case -1:
		s.res.Undecided = "relay socket inode unknown when Proxy returned"
		return
	case 1:
		rerr := srvErr()
		s.violate(sigOpen, "Proxy returned ("+fmt.Sprint(s.proxyErr)+") but the upstream connection it opened was still open at that moment",
			map[string]interface{}{"relay_socket_fd_open_at_return": true, "relay_socket_fd_open_now": SocketOpen(s.inode),
				"server_still_reading": s.srvObservable, "server_read_ended": srvEnded(), "server_read_error": rerr,
				"session_goroutines": gStrings(relayGoroutines(s.base))})
	default:
		if s.fdAtReturn == 0 {
			s.res.Params["relay_socket_fd_open_at_return"] = false
		}
		if s.srvObservable && s.srv != nil {
			// the close must reach the harness server as EOF / reset
			out, _ = s.budget.await(srvEnded, s.activity, s.base, func(string) string { return "C10:upstream-not-closed:server-saw-no-eof" })
			switch out {
			case vh.Undecided:
				s.res.Undecided = "waiting for the server to see the upstream close"
				return
			case vh.Stuck:
				s.violate("C10:upstream-not-closed:server-saw-no-eof", "Proxy returned and the relay's socket descriptor is gone, but the harness server never read EOF/reset",
					map[string]interface{}{"session_goroutines": gStrings(relayGoroutines(s.base))})
			default:
				s.res.Params["server_saw"] = srvErr()
			}
		}
	}

	// clause 3: the caller closes cc (as proxy.go does once Proxy returned), then census
	s.cc.Close()
	gone := func() bool { return len(relayGoroutines(s.base)) == 0 }
	sigLeft := func(string) string {
		gs := relayGoroutines(s.base)
		if d := deadlockSig(gs); d != "" {
			return d
		}
		if len(gs) == 0 {
			return "C10:goroutine-left:?"
		}
		return "C10:goroutine-left:" + leftClass(gs[0])
	}
	out, _ = s.budget.await(gone, s.activity, s.base, sigLeft)
	switch out {
	case vh.Undecided:
		s.res.Undecided = "waiting for the session goroutines to end"
	case vh.Stuck:
		gs := relayGoroutines(s.base)
		seen := map[string]bool{}
		for _, g := range gs {
			sig := "C10:goroutine-left:" + leftClass(g)
			if pushBlocked(g) {
				sig = deadlockSig([]vh.G{g})
			}
			if seen[sig] {
				continue
			}
			seen[sig] = true
			s.violate(sig, "after Proxy returned and the caller closed the client connection a session goroutine is still parked: "+martianFrames(g),
				map[string]interface{}{"session_goroutines": gStrings(gs)})
		}
	}
}

// releaseHandshake lets the gated harness server go on (once).
func (s *session) releaseHandshake() {
	if s.hsGate != nil && !s.hsReleased {
		s.hsReleased = true
		close(s.hsGate)
	}
}

func (s *session) teardown() {
	if s.gates != nil {
		s.gates.ReleaseAll()
	}
	if s.closing != nil && !s.closed {
		close(s.closing)
		s.closed = true
	}
	if s.cl != nil {
		s.cl.Close()
	}
	s.releaseHandshake()
	if s.raw != nil {
		s.raw.SetLinger(0)
		s.raw.Close()
	}
	if s.srv != nil {
		s.srv.Stop()
	}
	if s.ln != nil {
		s.ln.Close()
	}
	if s.proxyDone != nil {
		select {
		case <-s.proxyDone:
		case <-time.After(2 * time.Second):
		}
	}
	if s.cc != nil {
		s.cc.Close()
	}
	// give leftovers a moment to unwind, then make sure they never meet a gate
	deadline := time.Now().Add(time.Second)
	for time.Now().Before(deadline) && len(relayGoroutines(s.base)) > 0 {
		time.Sleep(5 * time.Millisecond)
	}
	var ids []string
	for _, g := range relayGoroutines(s.base) {
		ids = append(ids, g.ID)
	}
	Retire(ids...)
	if s.gates != nil {
		s.gates.Uninstall()
	}
}

// RunCell executes one cell once.
func RunCell(c Cell, rng *rand.Rand, budget *Budget) *Result {
	t0 := time.Now()
	res := &Result{Params: map[string]interface{}{}}
	s := &session{rng: rng, cell: c, res: res, budget: budget}
	defer func() {
		s.teardown()
		res.WallMS = time.Since(t0).Milliseconds()
	}()
	if !s.start() {
		return res
	}
	if c.State == "preface" {
		s.runPreface()
		return res
	}
	if c.State == "dialing" {
		s.runDialing()
		return res
	}
	delay := C2S
	if c.Delay == "s2c" {
		delay = S2C
	}
	if !s.handshake() {
		return res
	}
	var blocked [2]string
	ok := false
	switch c.State {
	case "idle":
		ok = s.establishIdle()
	case "mid-stream":
		ok = s.establishMid()
	case "blocked":
		blocked, ok = s.establishBlocked(delay)
	case "chan-full":
		ok = s.establishChanFull(delay)
	case "write-blocked":
		ok = s.establishWriteBlocked(delay)
	case "client-write-blocked":
		ok = s.establishClientWriteBlocked(delay)
	default:
		s.fail("unknown state %q", c.State)
	}
	if ok {
		ok = s.armDelay(delay, blocked)
	}
	if !ok {
		if s.wedged == "" || s.hasReturned() {
			return res
		}
		// A relay goroutine is spinning in place and nothing else moves: the state (or the delay)
		// cannot be completed, but the session exists and a terminating event must still end it.
		s.res.Why = ""
		s.res.Params["relay_wedged_before_event"] = "goroutine spinning in " + s.wedged
		s.gates.ReleaseDelay()
	}
	if s.hasReturned() {
		s.fail("Proxy returned before the terminating event")
		return res
	}
	res.Established = true
	if !s.fire() {
		res.Established = false
		return res
	}
	s.postTraffic()
	// let the undelayed direction notice first, then open the gates
	vh.Settle(s.activity, 3, 15*time.Millisecond, 5*time.Second)
	if c.State == "chan-full" && s.rng.Intn(2) == 0 {
		s.res.Params["release_order"] = "writers,reader"
		s.gates.ReleaseWriters()
		vh.Settle(s.activity, 2, 10*time.Millisecond, 2*time.Second)
		s.gates.ReleaseDelay()
	} else {
		s.res.Params["release_order"] = "reader,writers"
		s.gates.ReleaseDelay()
		if c.State == "chan-full" {
			vh.Settle(s.activity, 2, 10*time.Millisecond, 2*time.Second)
		}
		s.gates.ReleaseWriters()
	}
	s.oracle()
	return res
}

// runPreface: the session ends before the preface has been forwarded.
func (s *session) runPreface() {
	switch s.cell.Event {
	case "client-close":
		k := s.rng.Intn(len(ClientPreface))
		s.res.Params["preface_bytes_before_close"] = k
		if k > 0 {
			s.cli.WriteRaw([]byte(ClientPreface[:k]))
		}
		s.res.Established = true
		s.cl.Close()
		s.cliAlive = false
	case "proto-error-client":
		b := []byte(ClientPreface)
		i := s.rng.Intn(len(b))
		b[i] ^= byte(1 + s.rng.Intn(255))
		s.res.Params["preface_byte_corrupted"] = i
		s.res.Established = true
		if err := s.cli.WriteRaw(b); err != nil {
			s.res.Established = false
			s.fail("bad preface: %v", err)
			return
		}
	default:
		s.fail("event %q not defined for the preface state", s.cell.Event)
		return
	}
	s.oracle()
}
