package h2term

import (
	"bytes"
	"fmt"
	"io"
	"sync"
	"sync/atomic"
	"time"

	"golang.org/x/net/http2"
	"golang.org/x/net/http2/hpack"
)

// countRW counts the plaintext bytes an endpoint reads and writes.
type countRW struct {
	rw      io.ReadWriter
	in, out *int64
}

func (c countRW) Read(p []byte) (int, error) {
	n, err := c.rw.Read(p)
	atomic.AddInt64(c.in, int64(n))
	return n, err
}

func (c countRW) Write(p []byte) (int, error) {
	n, err := c.rw.Write(p)
	atomic.AddInt64(c.out, int64(n))
	return n, err
}

// Obs is what an endpoint's reader goroutine has observed so far.
type Obs struct {
	Frames       int
	Settings     int // non-ACK SETTINGS frames
	SettingsAcks int
	LastIWS      int64 // last SETTINGS_INITIAL_WINDOW_SIZE seen, -1 if none
	Pings        map[[8]byte]int
	Headers      map[uint32]int
	DataFrames   map[uint32]int
	DataBytes    map[uint32]int
	TotalData    int // DATA frames, all streams
	EndStream    map[uint32]bool
	WUConn       int64
	WUStream     map[uint32]int64
	Rst          int
	GoAway       int
	Preface      bool   // server side: the client preface arrived intact
	ReadDone     bool   // the reader goroutine ended
	ReadErr      string // with this error ("EOF" for a clean close)
}

// Endpoint is a raw http2.Framer peer (client or server side) with a
// permanently running reader goroutine.
type Endpoint struct {
	Name string
	fr   *http2.Framer
	raw  io.ReadWriter
	wmu  sync.Mutex
	enc  *hpack.Encoder
	ebuf bytes.Buffer

	In, Out int64 // atomic plaintext byte counters
	// GiveUp, if set, is polled about once a second by Wait: when it reports true the wait ends
	// unsuccessfully at once (the session has wedged; what is awaited cannot happen any more).
	GiveUp  func() bool
	paused  int32 // atomic: the reader stops reading (a peer that no longer reads)
	stopped int32 // atomic: session over, a paused reader gives up

	mu  sync.Mutex
	obs Obs
}

// NewEndpoint wraps rw; call Start to launch the reader.
func NewEndpoint(name string, rw io.ReadWriter) *Endpoint {
	e := &Endpoint{Name: name}
	c := countRW{rw: rw, in: &e.In, out: &e.Out}
	e.fr = http2.NewFramer(c, c)
	e.raw = c
	e.enc = hpack.NewEncoder(&e.ebuf)
	e.obs = Obs{
		LastIWS: -1, Pings: map[[8]byte]int{}, Headers: map[uint32]int{}, DataFrames: map[uint32]int{},
		DataBytes: map[uint32]int{}, EndStream: map[uint32]bool{}, WUStream: map[uint32]int64{},
	}
	return e
}

// MarkReadDone records a reader end that happened before Start (e.g. the
// server side never got a preface).
func (e *Endpoint) MarkReadDone(err error) {
	e.mu.Lock()
	e.obs.ReadDone = true
	if err != nil {
		e.obs.ReadErr = err.Error()
	}
	e.mu.Unlock()
}

// Start launches the reader goroutine. SETTINGS are acknowledged
// automatically (errors ignored: the write side may already be dead).
func (e *Endpoint) Start() {
	go e.readLoop()
}

// ClientPreface is the HTTP/2 connection preface.
const ClientPreface = "PRI * HTTP/2.0\r\n\r\nSM\r\n\r\n"

// StartServer launches the reader goroutine of a server endpoint: it first
// consumes the 24-byte client preface the relay forwards, then reads frames.
func (e *Endpoint) StartServer() {
	go func() {
		buf := make([]byte, len(ClientPreface))
		if _, err := io.ReadFull(e.raw, buf); err != nil {
			e.MarkReadDone(err)
			return
		}
		if string(buf) != ClientPreface {
			e.MarkReadDone(fmt.Errorf("harness server: unexpected preface %q", buf))
			return
		}
		e.mu.Lock()
		e.obs.Preface = true
		e.mu.Unlock()
		e.readLoop()
	}()
}

// WriteRaw writes bytes as they are (preface, garbage).
func (e *Endpoint) WriteRaw(b []byte) error {
	e.wmu.Lock()
	defer e.wmu.Unlock()
	_, err := e.raw.Write(b)
	return err
}

// Pause makes the reader goroutine stop reading (after the read it may
// currently be blocked in). Stop ends a paused reader.
func (e *Endpoint) Pause() { atomic.StoreInt32(&e.paused, 1) }
func (e *Endpoint) Stop()  { atomic.StoreInt32(&e.stopped, 1) }

func (e *Endpoint) readLoop() {
	for {
		for atomic.LoadInt32(&e.paused) != 0 {
			if atomic.LoadInt32(&e.stopped) != 0 {
				return
			}
			time.Sleep(time.Millisecond)
		}
		f, err := e.fr.ReadFrame()
		if err != nil {
			e.MarkReadDone(err)
			return
		}
		ack := false
		e.mu.Lock()
		o := &e.obs
		o.Frames++
		switch f := f.(type) {
		case *http2.SettingsFrame:
			if f.IsAck() {
				o.SettingsAcks++
			} else {
				o.Settings++
				if v, ok := f.Value(http2.SettingInitialWindowSize); ok {
					o.LastIWS = int64(v)
				}
				ack = true
			}
		case *http2.PingFrame:
			o.Pings[f.Data]++
		case *http2.HeadersFrame:
			o.Headers[f.StreamID]++
			if f.StreamEnded() {
				o.EndStream[f.StreamID] = true
			}
		case *http2.DataFrame:
			o.DataFrames[f.StreamID]++
			o.DataBytes[f.StreamID] += len(f.Data())
			o.TotalData++
			if f.StreamEnded() {
				o.EndStream[f.StreamID] = true
			}
		case *http2.WindowUpdateFrame:
			if f.StreamID == 0 {
				o.WUConn += int64(f.Increment)
			} else {
				o.WUStream[f.StreamID] += int64(f.Increment)
			}
		case *http2.RSTStreamFrame:
			o.Rst++
		case *http2.GoAwayFrame:
			o.GoAway++
		}
		e.mu.Unlock()
		if ack {
			e.wmu.Lock()
			e.fr.WriteSettingsAck()
			e.wmu.Unlock()
		}
	}
}

// Snapshot returns a copy of the scalar observations.
func (e *Endpoint) Snapshot() Obs {
	e.mu.Lock()
	defer e.mu.Unlock()
	o := e.obs
	o.Pings, o.Headers, o.DataFrames, o.DataBytes, o.EndStream, o.WUStream = nil, nil, nil, nil, nil, nil
	return o
}

// Look evaluates fn on the observations under the lock.
func (e *Endpoint) Look(fn func(o *Obs) bool) bool {
	e.mu.Lock()
	defer e.mu.Unlock()
	return fn(&e.obs)
}

// ReadEnded reports whether the reader goroutine has seen EOF / an error.
func (e *Endpoint) ReadEnded() (bool, string) {
	e.mu.Lock()
	defer e.mu.Unlock()
	return e.obs.ReadDone, e.obs.ReadErr
}

// WaitWatchdog bounds every "state establishment" wait of the harness. Its
// firing makes the cell inconclusive (retried), never a violation.
const WaitWatchdog = 20 * time.Second

// Wait polls until fn holds. It returns false when the watchdog fires or the
// reader has ended without fn holding.
func (e *Endpoint) Wait(fn func(o *Obs) bool) bool {
	return WaitForOr(func() bool { return e.Look(fn) }, e.GiveUp)
}

// WaitFor polls an arbitrary condition under the same watchdog.
func WaitFor(fn func() bool) bool { return WaitForOr(fn, nil) }

// WaitForOr is WaitFor with a give-up probe polled about once a second.
func WaitForOr(fn func() bool, giveUp func() bool) bool {
	start := time.Now()
	lastProbe := start
	d := 50 * time.Microsecond
	for {
		if fn() {
			return true
		}
		now := time.Now()
		if now.Sub(start) > WaitWatchdog {
			return false
		}
		if giveUp != nil && now.Sub(lastProbe) > time.Second {
			if giveUp() {
				return fn()
			}
			lastProbe = time.Now()
		}
		time.Sleep(d)
		if d < 2*time.Millisecond {
			d *= 2
		}
	}
}

// ---- writers (all serialised by wmu; errors returned to the caller) ----

func (e *Endpoint) do(fn func(fr *http2.Framer) error) error {
	e.wmu.Lock()
	defer e.wmu.Unlock()
	return fn(e.fr)
}

// Settings writes a SETTINGS frame.
func (e *Endpoint) Settings(s ...http2.Setting) error {
	return e.do(func(fr *http2.Framer) error { return fr.WriteSettings(s...) })
}

// Ping writes a PING (never an ACK) with payload derived from n.
func (e *Endpoint) Ping(p [8]byte) error {
	return e.do(func(fr *http2.Framer) error { return fr.WritePing(false, p) })
}

// PingPayload makes a distinguishable 8-byte payload.
func PingPayload(side byte, n int) [8]byte {
	return [8]byte{side, 'p', byte(n >> 24), byte(n >> 16), byte(n >> 8), byte(n), 0xc1, 0x0a}
}

// Headers writes a HEADERS frame (END_HEADERS) for the given fields.
func (e *Endpoint) Headers(id uint32, endStream bool, fields []hpack.HeaderField) error {
	return e.do(func(fr *http2.Framer) error {
		e.ebuf.Reset()
		for _, f := range fields {
			if err := e.enc.WriteField(f); err != nil {
				return err
			}
		}
		return fr.WriteHeaders(http2.HeadersFrameParam{
			StreamID: id, BlockFragment: append([]byte(nil), e.ebuf.Bytes()...), EndStream: endStream, EndHeaders: true,
		})
	})
}

// Data writes one DATA frame.
func (e *Endpoint) Data(id uint32, endStream bool, b []byte) error {
	return e.do(func(fr *http2.Framer) error { return fr.WriteData(id, endStream, b) })
}

// WindowUpdate writes a WINDOW_UPDATE.
func (e *Endpoint) WindowUpdate(id, incr uint32) error {
	return e.do(func(fr *http2.Framer) error { return fr.WriteWindowUpdate(id, incr) })
}

// RawFrame writes an arbitrary frame header + payload (used for malformed frames).
func (e *Endpoint) RawFrame(t http2.FrameType, flags http2.Flags, id uint32, payload []byte) error {
	return e.do(func(fr *http2.Framer) error {
		n := len(payload)
		hdr := []byte{byte(n >> 16), byte(n >> 8), byte(n), byte(t), byte(flags),
			byte(id >> 24), byte(id >> 16), byte(id >> 8), byte(id)}
		_, err := e.raw.Write(append(hdr, payload...))
		return err
	})
}

// ReqFields / ResFields are small valid header lists.
func ReqFields(n int, extra string, more ...hpack.HeaderField) []hpack.HeaderField {
	return append([]hpack.HeaderField{
		{Name: ":method", Value: "POST"},
		{Name: ":scheme", Value: "https"},
		{Name: ":authority", Value: "c10.example"},
		{Name: ":path", Value: fmt.Sprintf("/c10/%d", n)},
		{Name: "x-c10", Value: extra},
	}, more...)
}

func ResFields(extra, contentType string) []hpack.HeaderField {
	return []hpack.HeaderField{
		{Name: ":status", Value: "200"},
		{Name: "content-type", Value: contentType},
		{Name: "x-c10", Value: extra},
	}
}
