// Package h2term holds the harness pieces of property C10 (HTTP/2 relay
// termination): a loopback TLS "origin" driven by a raw http2.Framer, a raw
// http2.Framer client on an in-memory pipe, schedule gates on the verifhook
// points of h2/relay.go, and the per-cell oracle.
package h2term

import (
	"crypto/ecdsa"
	"crypto/elliptic"
	"crypto/rand"
	"crypto/tls"
	"crypto/x509"
	"crypto/x509/pkix"
	"math/big"
	"net"
	"sync"
	"time"
)

// PKI is the harness CA and a leaf for 127.0.0.1, made once per process.
type PKI struct {
	Pool *x509.CertPool
	Leaf tls.Certificate
	// Untrusted is a leaf for 127.0.0.1 under a second CA that is not in Pool; WrongName is a leaf
	// under the trusted CA for another address. Both make the relay's handshake fail.
	Untrusted tls.Certificate
	WrongName tls.Certificate
}

var (
	pkiOnce sync.Once
	pki     *PKI
	pkiErr  error
)

// GetPKI returns the process-wide harness CA / leaf.
func GetPKI() (*PKI, error) {
	pkiOnce.Do(func() { pki, pkiErr = newPKI() })
	return pki, pkiErr
}

func newCA(cn string) (*x509.Certificate, *ecdsa.PrivateKey, error) {
	key, err := ecdsa.GenerateKey(elliptic.P256(), rand.Reader)
	if err != nil {
		return nil, nil, err
	}
	now := time.Now()
	t := &x509.Certificate{
		SerialNumber:          big.NewInt(1),
		Subject:               pkix.Name{CommonName: cn},
		NotBefore:             now.Add(-time.Hour),
		NotAfter:              now.Add(48 * time.Hour),
		IsCA:                  true,
		BasicConstraintsValid: true,
		KeyUsage:              x509.KeyUsageCertSign | x509.KeyUsageDigitalSignature,
	}
	der, err := x509.CreateCertificate(rand.Reader, t, t, &key.PublicKey, key)
	if err != nil {
		return nil, nil, err
	}
	c, err := x509.ParseCertificate(der)
	return c, key, err
}

func newLeaf(ca *x509.Certificate, caKey *ecdsa.PrivateKey, serial int64, ip net.IP, name string) (tls.Certificate, error) {
	key, err := ecdsa.GenerateKey(elliptic.P256(), rand.Reader)
	if err != nil {
		return tls.Certificate{}, err
	}
	now := time.Now()
	t := &x509.Certificate{
		SerialNumber: big.NewInt(serial),
		Subject:      pkix.Name{CommonName: name},
		NotBefore:    now.Add(-time.Hour),
		NotAfter:     now.Add(48 * time.Hour),
		KeyUsage:     x509.KeyUsageDigitalSignature,
		ExtKeyUsage:  []x509.ExtKeyUsage{x509.ExtKeyUsageServerAuth},
		IPAddresses:  []net.IP{ip},
		DNSNames:     []string{name},
	}
	der, err := x509.CreateCertificate(rand.Reader, t, ca, &key.PublicKey, caKey)
	if err != nil {
		return tls.Certificate{}, err
	}
	return tls.Certificate{Certificate: [][]byte{der}, PrivateKey: key}, nil
}

func newPKI() (*PKI, error) {
	ca, caKey, err := newCA("verif C10 harness CA")
	if err != nil {
		return nil, err
	}
	other, otherKey, err := newCA("verif C10 untrusted CA")
	if err != nil {
		return nil, err
	}
	p := &PKI{Pool: x509.NewCertPool()}
	p.Pool.AddCert(ca)
	if p.Leaf, err = newLeaf(ca, caKey, 2, net.IPv4(127, 0, 0, 1), "localhost"); err != nil {
		return nil, err
	}
	if p.Untrusted, err = newLeaf(other, otherKey, 3, net.IPv4(127, 0, 0, 1), "localhost"); err != nil {
		return nil, err
	}
	if p.WrongName, err = newLeaf(ca, caKey, 4, net.IPv4(10, 11, 12, 13), "elsewhere.example"); err != nil {
		return nil, err
	}
	return p, nil
}
