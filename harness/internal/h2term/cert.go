// Package h2term holds the harness pieces of property C10 (HTTP/2 relay
// termination): a loopback TLS "origin" driven by a raw http2.Framer, a raw
// http2.Framer client on an in-memory pipe, schedule gates on the verifhook
// points of h2/relay.go, and the per-cell oracle.
package h2term

import (
	"crypto/ecdsa"
	"crypto/elliptic"
	"crypto/rand"
	"crypto/tls"
	"crypto/x509"
	"crypto/x509/pkix"
	"math/big"
	"net"
	"sync"
	"time"
)

// PKI is the harness CA and a leaf for 127.0.0.1, made once per process.
type PKI struct {
	Pool *x509.CertPool
	Leaf tls.Certificate
}

var (
	pkiOnce sync.Once
	pki     *PKI
	pkiErr  error
)

// GetPKI returns the process-wide harness CA / leaf.
func GetPKI() (*PKI, error) {
	pkiOnce.Do(func() { pki, pkiErr = newPKI() })
	return pki, pkiErr
}

func newPKI() (*PKI, error) {
	caKey, err := ecdsa.GenerateKey(elliptic.P256(), rand.Reader)
	if err != nil {
		return nil, err
	}
	now := time.Now()
	caT := &x509.Certificate{
		SerialNumber:          big.NewInt(1),
		Subject:               pkix.Name{CommonName: "verif C10 harness CA"},
		NotBefore:             now.Add(-time.Hour),
		NotAfter:              now.Add(48 * time.Hour),
		IsCA:                  true,
		BasicConstraintsValid: true,
		KeyUsage:              x509.KeyUsageCertSign | x509.KeyUsageDigitalSignature,
	}
	caDER, err := x509.CreateCertificate(rand.Reader, caT, caT, &caKey.PublicKey, caKey)
	if err != nil {
		return nil, err
	}
	caCert, err := x509.ParseCertificate(caDER)
	if err != nil {
		return nil, err
	}
	leafKey, err := ecdsa.GenerateKey(elliptic.P256(), rand.Reader)
	if err != nil {
		return nil, err
	}
	leafT := &x509.Certificate{
		SerialNumber: big.NewInt(2),
		Subject:      pkix.Name{CommonName: "127.0.0.1"},
		NotBefore:    now.Add(-time.Hour),
		NotAfter:     now.Add(48 * time.Hour),
		KeyUsage:     x509.KeyUsageDigitalSignature,
		ExtKeyUsage:  []x509.ExtKeyUsage{x509.ExtKeyUsageServerAuth},
		IPAddresses:  []net.IP{net.IPv4(127, 0, 0, 1)},
		DNSNames:     []string{"localhost"},
	}
	leafDER, err := x509.CreateCertificate(rand.Reader, leafT, caCert, &leafKey.PublicKey, caKey)
	if err != nil {
		return nil, err
	}
	pool := x509.NewCertPool()
	pool.AddCert(caCert)
	return &PKI{
		Pool: pool,
		Leaf: tls.Certificate{Certificate: [][]byte{leafDER}, PrivateKey: leafKey},
	}, nil
}
