package h2term

import (
	"encoding/binary"
	"math/rand"
	"net/url"
	"sort"
	"strings"
	"time"

	"github.com/google/martian/v3/h2"
	"github.com/google/martian/v3/h2/grpc"
	"golang.org/x/net/http2"
	"golang.org/x/net/http2/hpack"

	"verifharness/internal/vh"
)

// ---------------------------------------------------------------------------
// quiescence with a "spinning" verdict
//
// vh.Await decides "stuck" when every martian goroutine is parked and nothing
// moves. A relay goroutine caught in a busy loop is never parked, so it would
// only ever yield Undecided. awaitSession adds the verdict: after the grace
// period, over the same window (Samples consecutive samples spaced Interval),
// the activity counters are unchanged, every parked session goroutine has an
// identical stack, and the goroutines that are not parked are the same ones
// (by id), running or runnable, with the same innermost martian function in
// every sample. A legitimately busy relay moves bytes or changes function;
// only goroutines of this session are considered (leftovers of earlier,
// violated sessions - possibly still spinning - are excluded by id).

type awaitOpts struct {
	Grace, Interval, Watchdog time.Duration
	Samples                   int
}

func (o *awaitOpts) defaults() {
	if o.Grace == 0 {
		o.Grace = 5 * time.Second
	}
	if o.Samples == 0 {
		o.Samples = 6
	}
	if o.Interval == 0 {
		o.Interval = 600 * time.Millisecond
	}
	if o.Watchdog == 0 {
		o.Watchdog = 45 * time.Second
	}
}

func innermostMartian(g vh.G) string {
	for _, f := range g.Funcs {
		if i := strings.Index(f, vh.MartianPkg+"/"); i >= 0 {
			return f[i+len(vh.MartianPkg)+1:]
		}
	}
	return "?"
}

// sessionSample returns the fingerprint of the session's martian goroutines
// and the sorted "id|function" keys of those that are not parked.
func sessionSample(exclude map[string]bool, activity func() string) (fp string, running []string) {
	var lines []string
	for _, g := range vh.Goroutines() {
		if !g.Has(vh.MartianPkg) || exclude[g.ID] {
			continue
		}
		if g.Blocked() {
			lines = append(lines, g.String())
		} else {
			running = append(running, g.ID+"|"+innermostMartian(g))
		}
	}
	sort.Strings(lines)
	sort.Strings(running)
	fp = strings.Join(lines, "\n") + "\nrunning:" + strings.Join(running, ",")
	if activity != nil {
		fp += "\nactivity:" + activity()
	}
	return fp, running
}

// awaitSession waits for cond. Stuck with spin == "" means quiescent and
// parked; Stuck with spin != "" means quiescent but for goroutines spinning in
// the named function(s).
func awaitSession(cond func() bool, activity func() string, exclude map[string]bool, o awaitOpts) (out vh.Outcome, spin string) {
	o.defaults()
	start := time.Now()
	poll := 2 * time.Millisecond
	for time.Since(start) < o.Grace {
		if cond() {
			return vh.Happened, ""
		}
		time.Sleep(poll)
		if poll < 50*time.Millisecond {
			poll *= 2
		}
	}
	same, last := 0, ""
	var running []string
	for time.Since(start) < o.Watchdog {
		if cond() {
			return vh.Happened, ""
		}
		fp, run := sessionSample(exclude, activity)
		if fp == last {
			same++
		} else {
			same, last = 1, fp
		}
		running = run
		if same >= o.Samples {
			if cond() {
				return vh.Happened, ""
			}
			var fns []string
			for _, r := range running {
				if i := strings.Index(r, "|"); i >= 0 {
					fns = append(fns, r[i+1:])
				}
			}
			return vh.Stuck, strings.Join(fns, ",")
		}
		end := time.Now().Add(o.Interval)
		for time.Now().Before(end) {
			if cond() {
				return vh.Happened, ""
			}
			time.Sleep(20 * time.Millisecond)
		}
	}
	if cond() {
		return vh.Happened, ""
	}
	return vh.Undecided, ""
}

// spinningNow is the short version used while establishing a state: the
// session is quiescent except for goroutines spinning in place (4 samples,
// 150 ms apart). It only lets the harness stop waiting for something that
// cannot happen any more; it never decides a verdict.
func spinningNow(activity func() string, exclude map[string]bool) string {
	last := ""
	var running []string
	for i := 0; i < 4; i++ {
		fp, run := sessionSample(exclude, activity)
		if len(run) == 0 || (i > 0 && fp != last) {
			return ""
		}
		last, running = fp, run
		time.Sleep(150 * time.Millisecond)
	}
	return strings.Join(running, ",")
}

// ---------------------------------------------------------------------------
// stream processors installed in the relay (session variants)

// passThrough is a plain h2.Processor that hands every frame to its sink.
type passThrough struct{ sink h2.Processor }

func (p *passThrough) Data(data []byte, streamEnded bool) error {
	return p.sink.Data(data, streamEnded)
}
func (p *passThrough) Header(h []hpack.HeaderField, streamEnded bool, pr http2.PriorityParam) error {
	return p.sink.Header(h, streamEnded, pr)
}
func (p *passThrough) Priority(pr http2.PriorityParam) error { return p.sink.Priority(pr) }
func (p *passThrough) RSTStream(c http2.ErrCode) error       { return p.sink.RSTStream(c) }
func (p *passThrough) PushPromise(id uint32, h []hpack.HeaderField) error {
	return p.sink.PushPromise(id, h)
}

// ProcessorFactories returns the Config.StreamProcessorFactories of a variant:
// "" none, "h2" a pass-through h2.Processor pair, "grpc" the gRPC adapter with
// a pass-through gRPC processor pair.
func ProcessorFactories(variant string) []h2.StreamProcessorFactory {
	switch variant {
	case "h2":
		return []h2.StreamProcessorFactory{func(_ *url.URL, sinks *h2.Processors) (h2.Processor, h2.Processor) {
			return &passThrough{sinks.ForDirection(h2.ClientToServer)}, &passThrough{sinks.ForDirection(h2.ServerToClient)}
		}}
	case "grpc":
		return []h2.StreamProcessorFactory{grpc.AsStreamProcessorFactory(
			func(_ *url.URL, server, client grpc.Processor) (grpc.Processor, grpc.Processor) {
				return server, client
			})}
	}
	return nil
}

// ---------------------------------------------------------------------------
// gRPC-framed byte streams cut into DATA frames at structural boundaries

// grpcGen produces the bytes of one direction of one gRPC stream: messages of
// 0..300 bytes, each behind its 5-byte prefix (uncompressed), handed out in
// chunks whose ends cycle through: inside a prefix (1..4 bytes of it), right
// after a prefix, inside a payload, exactly at a message end.
type grpcGen struct {
	rng   *rand.Rand
	buf   []byte
	marks []int // offsets in buf where a message (its prefix) starts
	class int
}

func newGrpcGen(rng *rand.Rand) *grpcGen {
	return &grpcGen{rng: rng, class: rng.Intn(4)}
}

func (g *grpcGen) fill() {
	for len(g.marks) < 4 {
		n := g.rng.Intn(301)
		if g.rng.Intn(6) == 0 {
			n = 0
		}
		g.marks = append(g.marks, len(g.buf))
		var p [5]byte
		binary.BigEndian.PutUint32(p[1:], uint32(n))
		g.buf = append(g.buf, p[:]...)
		g.buf = append(g.buf, vh.Stamp(uint32(g.rng.Intn(1<<20)), n)...)
	}
}

func (g *grpcGen) cut(n int) []byte {
	out := append([]byte(nil), g.buf[:n]...)
	g.buf = g.buf[n:]
	var m []int
	for _, x := range g.marks {
		if x >= n {
			m = append(m, x-n)
		}
	}
	g.marks = m
	return out
}

// next returns the next chunk (never empty).
func (g *grpcGen) next() []byte {
	g.fill()
	// start of the message whose prefix is the next one to begin at or after offset 0
	start := g.marks[0]
	nextStart := g.marks[1]
	msgLen := nextStart - start - 5
	c := g.class
	g.class = (g.class + 1) % 4
	var n int
	switch c {
	case 0: // inside the prefix
		n = start + 1 + g.rng.Intn(4)
	case 1: // right after the prefix
		n = start + 5
	case 2: // inside the payload
		if msgLen > 1 {
			n = start + 5 + 1 + g.rng.Intn(msgLen-1)
		} else {
			n = start + 5
		}
	default: // exactly at the message end
		n = nextStart
	}
	if n <= 0 {
		n = nextStart
	}
	return g.cut(n)
}

// finish returns the bytes up to the end of the message in progress (or of one
// whole message if none is), so that the stream can end on a message boundary.
func (g *grpcGen) finish() []byte {
	g.fill()
	n := g.marks[0]
	if n == 0 {
		n = g.marks[1]
	}
	return g.cut(n)
}
