package h2term

import (
	"bufio"
	"crypto/tls"
	"crypto/x509"
	"fmt"
	"math/rand"
	"net"
	"net/http"
	"strings"
	"sync"
	"sync/atomic"
	"syscall"
	"time"

	martian "github.com/google/martian/v3"
	"github.com/google/martian/v3/h2"
	"github.com/google/martian/v3/mitm"
	"golang.org/x/net/http2"

	"verifharness/internal/vh"
)

// The "via-proxy" family drives the relay the way production does: a real
// martian.Proxy with a mitm.Config carrying an h2.Config serves a loopback
// listener; the client opens a CONNECT tunnel, negotiates h2 by ALPN inside it
// and then speaks raw frames; the upstream is the harness TLS origin. The
// caller of h2.Config.Proxy is proxy.go itself, including what it arranges
// around the call (the deadline it keeps on the client connection, closing the
// connection when the handler ends).
//
// In some session states no goroutine of the relay can observe a terminating
// event (the client is silent before the preface; the client has stopped
// reading and both readers are parked behind the blocked write). Called
// directly, the relay stays there (known findings / limits). Through the proxy
// those states are bounded by the deadline proxy.go keeps on the client
// connection (Proxy.SetTimeout): "returns within a bounded time" then holds
// with that bound. The oracle therefore first sleeps past the configured
// timeout, then past the deadline the handler loop re-arms once (lower
// bounds, sound under load), and only then applies the quiescence window.

// ProxyTimeout is the Proxy.SetTimeout of the first attempt of a via-proxy cell. When the state
// cannot be established (under heavy oversubscription the proxy's own deadline can expire while the
// harness is still establishing it), the cell is retried with the timeout doubled (6 s, 12 s, 24 s):
// the value is per session, and the oracle's waits follow it.
const (
	ProxyTimeout = 6 * time.Second
)

// ProxyTimeoutFor returns the timeout of the given attempt (0-based).
func ProxyTimeoutFor(attempt int) time.Duration {
	if attempt < 0 {
		attempt = 0
	}
	if attempt > 4 {
		attempt = 4
	}
	return ProxyTimeout << uint(attempt)
}

var (
	ProxyStates = []string{"proxy-silent-before-preface", "proxy-idle", "proxy-client-stalled-late-frame"}
	ProxyEvents = []string{"closing", "server-close"}
)

var (
	mitmOnce sync.Once
	mitmCA   *x509.Certificate
	mitmKey  interface{}
	mitmErr  error
)

func mitmAuthority() (*x509.Certificate, interface{}, error) {
	mitmOnce.Do(func() {
		ca, key, err := mitm.NewAuthority("verif C10 mitm", "verif", 24*time.Hour)
		mitmCA, mitmKey, mitmErr = ca, key, err
	})
	return mitmCA, mitmKey, mitmErr
}

func handlerGoroutines(exclude map[string]bool) []vh.G {
	var out []vh.G
	for _, g := range vh.Goroutines() {
		if !exclude[g.ID] && g.HasFrame("martian/v3.(*Proxy).handleLoop") {
			out = append(out, g)
		}
	}
	return out
}

type proxySession struct {
	rng     *rand.Rand
	cell    Cell
	res     *Result
	budget  *Budget
	timeout time.Duration // Proxy.SetTimeout of this session

	base    map[string]bool
	p       *martian.Proxy
	pl      net.Listener
	closed  bool
	ul      net.Listener
	raw     *net.TCPConn
	tc      *tls.Conn
	cconn   net.Conn
	ctls    *tls.Conn
	cli     *Endpoint
	srv     *Endpoint
	inode   string
	t0      time.Time
	srvRead bool // the server still reads: it will see the relay's close
}

func (s *proxySession) fail(format string, a ...interface{}) bool {
	s.res.Why = fmt.Sprintf(format, a...)
	return false
}

func (s *proxySession) activity() string {
	var a, b, c, d int64
	if s.cli != nil {
		a, b = atomic.LoadInt64(&s.cli.In), atomic.LoadInt64(&s.cli.Out)
	}
	if s.srv != nil {
		c, d = atomic.LoadInt64(&s.srv.In), atomic.LoadInt64(&s.srv.Out)
	}
	return fmt.Sprint(a, b, c, d)
}

func (s *proxySession) start() bool {
	pk, err := GetPKI()
	if err != nil {
		return s.fail("pki: %v", err)
	}
	ca, key, err := mitmAuthority()
	if err != nil {
		return s.fail("mitm authority: %v", err)
	}
	s.base = map[string]bool{}
	for _, g := range vh.Goroutines() {
		if isRelayG(g) || g.HasFrame("martian/v3.(*Proxy).handleLoop") {
			s.base[g.ID] = true
		}
	}
	mc, err := mitm.NewConfig(ca, key)
	if err != nil {
		return s.fail("mitm config: %v", err)
	}
	mc.SetH2Config(&h2.Config{AllowedHostsFilter: func(string) bool { return true }, RootCAs: pk.Pool})
	s.p = martian.NewProxy()
	s.p.SetMITM(mc)
	s.p.SetTimeout(s.timeout)
	if s.pl, err = net.Listen("tcp", "127.0.0.1:0"); err != nil {
		return s.fail("listen: %v", err)
	}
	go s.p.Serve(s.pl)
	if s.ul, err = net.Listen("tcp", "127.0.0.1:0"); err != nil {
		return s.fail("listen: %v", err)
	}
	type acc struct {
		raw *net.TCPConn
		tc  *tls.Conn
		err error
	}
	ach := make(chan acc, 1)
	go func() {
		c, err := s.ul.Accept()
		if err != nil {
			ach <- acc{err: err}
			return
		}
		raw := c.(*net.TCPConn)
		tc := tls.Server(raw, &tls.Config{Certificates: []tls.Certificate{pk.Leaf}, NextProtos: []string{"h2"}})
		if err := tc.Handshake(); err != nil {
			raw.Close()
			ach <- acc{err: err}
			return
		}
		ach <- acc{raw: raw, tc: tc}
	}()

	// client: CONNECT, then TLS with ALPN h2 inside the tunnel
	d := net.Dialer{}
	if s.cell.State == "proxy-client-stalled-late-frame" {
		// a client with a small receive buffer (set before the SYN, so that the advertised window and
		// with it the proxy's send buffer stay small and the stall is reached after little data)
		d.Control = func(_, _ string, c syscall.RawConn) error {
			return c.Control(func(fd uintptr) { syscall.SetsockoptInt(int(fd), syscall.SOL_SOCKET, syscall.SO_RCVBUF, 8<<10) })
		}
	}
	if s.cconn, err = d.Dial("tcp", s.pl.Addr().String()); err != nil {
		return s.fail("dial proxy: %v", err)
	}
	s.t0 = time.Now() // the handler loop set its deadline no later than now + s.timeout
	target := s.ul.Addr().String()
	fmt.Fprintf(s.cconn, "CONNECT %s HTTP/1.1\r\nHost: %s\r\n\r\n", target, target)
	br := bufio.NewReader(s.cconn)
	resp, err := http.ReadResponse(br, &http.Request{Method: "CONNECT"})
	if err != nil {
		return s.fail("CONNECT response: %v", err)
	}
	if resp.StatusCode != 200 {
		return s.fail("CONNECT status %d", resp.StatusCode)
	}
	if br.Buffered() != 0 {
		return s.fail("unexpected bytes after the CONNECT response")
	}
	s.ctls = tls.Client(s.cconn, &tls.Config{InsecureSkipVerify: true, NextProtos: []string{"h2"}})
	if err := s.ctls.Handshake(); err != nil {
		return s.fail("client TLS handshake through the tunnel: %v", err)
	}
	if np := s.ctls.ConnectionState().NegotiatedProtocol; np != "h2" {
		return s.fail("tunnel negotiated %q, want h2", np)
	}
	s.cli = NewEndpoint("client", s.ctls)
	select {
	case a := <-ach:
		if a.err != nil {
			return s.fail("upstream accept/handshake: %v", a.err)
		}
		s.raw, s.tc = a.raw, a.tc
	case <-time.After(WaitWatchdog):
		return s.fail("the relay never connected upstream")
	}
	if s.inode = SocketInode(s.raw.RemoteAddr(), s.raw.LocalAddr()); s.inode == "" {
		return s.fail("relay socket not found in /proc/self/net/tcp")
	}
	s.srv = NewEndpoint("server", s.tc)
	s.srv.StartServer()
	s.srvRead = true
	return true
}

func (s *proxySession) handshake() bool {
	if err := s.cli.WriteRaw([]byte(ClientPreface)); err != nil {
		return s.fail("preface: %v", err)
	}
	if err := s.cli.Settings(); err != nil {
		return s.fail("settings: %v", err)
	}
	s.cli.Start()
	if !s.srv.Wait(func(o *Obs) bool { return o.Settings >= 1 }) {
		return s.fail("server never saw the client's SETTINGS")
	}
	if err := s.srv.Settings(); err != nil {
		return s.fail("server settings: %v", err)
	}
	if !s.cli.Wait(func(o *Obs) bool { return o.Settings >= 1 && o.SettingsAcks >= 1 }) {
		return s.fail("client never saw SETTINGS + ACK")
	}
	return true
}

func (s *proxySession) pingThrough(from, to *Endpoint, n int) bool {
	p := PingPayload(from.Name[0], n)
	if err := from.Ping(p); err != nil {
		return s.fail("ping: %v", err)
	}
	if !to.Wait(func(o *Obs) bool { return o.Pings[p] > 0 }) {
		return s.fail("ping was not relayed")
	}
	return true
}

func (s *proxySession) establish() bool {
	switch s.cell.State {
	case "proxy-silent-before-preface":
		// the relay has dialed upstream and waits for a preface that does not come
		return WaitFor(func() bool {
			for _, g := range relayGoroutines(s.base) {
				if g.HasFrame("h2.forwardPreface") {
					return true
				}
			}
			return false
		}) || s.fail("the relay never reached forwardPreface")
	case "proxy-idle":
		return s.handshake() && s.pingThrough(s.cli, s.srv, 1) && s.pingThrough(s.srv, s.cli, 2)
	case "proxy-client-stalled-late-frame":
		if !s.handshake() {
			return false
		}
		const big = 1 << 30
		if err := s.cli.Settings(http2.Setting{ID: http2.SettingInitialWindowSize, Val: big}); err != nil {
			return s.fail("settings: %v", err)
		}
		if err := s.cli.WindowUpdate(0, big-65535); err != nil {
			return s.fail("window update: %v", err)
		}
		if !s.pingThrough(s.cli, s.srv, 3) {
			return false
		}
		id := uint32(1)
		if err := s.cli.Headers(id, false, ReqFields(1, "download")); err != nil {
			return s.fail("headers: %v", err)
		}
		if !s.srv.Wait(func(o *Obs) bool { return o.Headers[id] >= 1 }) {
			return s.fail("request headers did not arrive")
		}
		if err := s.srv.Headers(id, false, ResFields("download", "application/octet-stream")); err != nil {
			return s.fail("headers: %v", err)
		}
		if !s.cli.Wait(func(o *Obs) bool { return o.Headers[id] >= 1 }) {
			return s.fail("response headers did not arrive")
		}
		s.cli.Pause()
		chunk := vh.Stamp(11, 16384)
		sent := int64(0)
		start := time.Now()
		for {
			var credit int64
			s.srv.Look(func(o *Obs) bool {
				credit = 65535 + o.WUConn - sent
				if c := 65535 + o.WUStream[id] - sent; c < credit {
					credit = c
				}
				return true
			})
			if credit >= int64(len(chunk)) {
				if err := s.srv.Data(id, false, chunk); err != nil {
					return s.fail("download: %v", err)
				}
				sent += int64(len(chunk))
				continue
			}
			w, p := false, false
			for _, g := range relayGoroutines(s.base) {
				if g.HasFrame("crypto/tls.(*Conn).Write") && strings.HasPrefix(g.State, "IO wait") {
					w = true
				}
				if pushBlocked(g) {
					p = true
				}
			}
			if w && p {
				break
			}
			if time.Since(start) > WaitWatchdog {
				return s.fail("after %d bytes the relay's writer is not blocked toward the stalled client", sent)
			}
			time.Sleep(500 * time.Microsecond)
		}
		s.res.Params["downloaded_bytes_until_stall"] = sent
		// one more frame from the client: its reader now needs the lock the parked reader holds
		late := "window-update"
		if s.rng.Intn(2) == 0 {
			late = "data"
		}
		s.res.Params["late_client_frame"] = late
		var err error
		if late == "data" {
			err = s.cli.Data(id, false, vh.Stamp(12, 1+s.rng.Intn(100)))
		} else {
			err = s.cli.WindowUpdate(id, uint32(1+s.rng.Intn(1000)))
		}
		if err != nil {
			return s.fail("late frame: %v", err)
		}
		return WaitFor(func() bool {
			for _, g := range relayGoroutines(s.base) {
				if strings.HasPrefix(g.State, "sync.Mutex.Lock") && g.HasFrame("h2.(*relay).processFrame") {
					return true
				}
			}
			return false
		}) || s.fail("the client->server reader did not park on the lock held behind the blocked write")
	}
	return s.fail("unknown state %q", s.cell.State)
}

func (s *proxySession) fire() bool {
	switch s.cell.Event {
	case "closing":
		s.closed = true
		go s.p.Close()
	case "server-close":
		if s.rng.Intn(2) == 0 {
			s.res.Params["server_close"] = "half (close_notify+FIN, keeps reading)"
			s.tc.CloseWrite()
		} else {
			s.res.Params["server_close"] = "full"
			s.srvRead = false
			s.tc.Close()
		}
	default:
		return s.fail("event %q not defined for the via-proxy family", s.cell.Event)
	}
	return true
}

func (s *proxySession) violate(sig, what string, w map[string]interface{}) {
	if w == nil {
		w = map[string]interface{}{}
	}
	w["params"] = s.res.Params
	s.res.Viols = append(s.res.Viols, Viol{Sig: sig, What: what, Witness: w})
}

func (s *proxySession) oracle() {
	ev := s.cell.Event
	// lower bound: past the deadline proxy.go set on the client connection for this handler iteration
	if d := time.Until(s.t0.Add(s.timeout + 500*time.Millisecond)); d > 0 {
		time.Sleep(d)
	}
	gone := func() bool { return len(handlerGoroutines(s.base)) == 0 }
	// When the h2 session has been ended by that deadline, the handler loop re-arms it once more
	// (another s.timeout) before it gives up on the connection. Sampling for quiescence only starts
	// after that second deadline has passed as well, whatever the session's timeout is; the wait ends
	// early only when the handler has already ended.
	for limit := s.t0.Add(2*s.timeout + time.Second); time.Now().Before(limit) && !gone(); {
		time.Sleep(20 * time.Millisecond)
	}
	sigNo := "C10:no-return:via-proxy:" + ev
	out, spin := s.budget.await(gone, s.activity, s.base, func(sp string) string {
		if sp != "" {
			return "C10:no-return:spinning:" + spinFuncs(sp)
		}
		return sigNo
	})
	switch out {
	case vh.Undecided:
		s.res.Undecided = "waiting for the connection handler to end"
		return
	case vh.Stuck:
		sig := sigNo
		if spin != "" {
			sig = "C10:no-return:spinning:" + spinFuncs(spin)
		}
		s.violate(sig, fmt.Sprintf("through martian.Proxy (timeout %v): the connection handler has not ended after %s in state %s, although twice the configured timeout has passed; every goroutine of the session is parked and no byte moves",
			s.timeout, ev, s.cell.State),
			map[string]interface{}{"handler_goroutines": gStrings(handlerGoroutines(s.base)), "session_goroutines": gStrings(relayGoroutines(s.base))})
		return
	}
	s.res.Returned = true
	srvEnded := func() bool { d, _ := s.srv.ReadEnded(); return d }
	closed := func() bool { return !SocketOpen(s.inode) && (!s.srvRead || srvEnded()) }
	sigOpen := "C10:upstream-not-closed:via-proxy"
	out, _ = s.budget.await(closed, s.activity, s.base, func(string) string { return sigOpen })
	switch out {
	case vh.Undecided:
		s.res.Undecided = "waiting for the upstream close"
		return
	case vh.Stuck:
		s.violate(sigOpen, "through martian.Proxy: the connection handler ended but the upstream connection of the h2 session is still open",
			map[string]interface{}{"relay_socket_fd_open": SocketOpen(s.inode), "server_read_ended": srvEnded()})
	}
	left := func() bool { return len(relayGoroutines(s.base)) == 0 }
	out, _ = s.budget.await(left, s.activity, s.base, func(string) string {
		if gs := relayGoroutines(s.base); len(gs) > 0 {
			return "C10:goroutine-left:" + leftClass(gs[0])
		}
		return "C10:goroutine-left:?"
	})
	switch out {
	case vh.Undecided:
		s.res.Undecided = "waiting for the session goroutines to end"
	case vh.Stuck:
		gs := relayGoroutines(s.base)
		seen := map[string]bool{}
		for _, g := range gs {
			sig := "C10:goroutine-left:" + leftClass(g)
			if seen[sig] {
				continue
			}
			seen[sig] = true
			s.violate(sig, "through martian.Proxy: after the connection handler ended a session goroutine is still parked: "+martianFrames(g),
				map[string]interface{}{"session_goroutines": gStrings(gs)})
		}
	}
}

func (s *proxySession) teardown() {
	if s.cconn != nil {
		s.cconn.Close()
	}
	if s.raw != nil {
		s.raw.SetLinger(0)
		s.raw.Close()
	}
	if s.cli != nil {
		s.cli.Stop()
	}
	if s.srv != nil {
		s.srv.Stop()
	}
	if s.ul != nil {
		s.ul.Close()
	}
	if s.pl != nil {
		s.pl.Close()
	}
	if s.p != nil && !s.closed {
		s.closed = true
		done := make(chan struct{})
		go func() { s.p.Close(); close(done) }()
		select {
		case <-done:
		case <-time.After(2 * time.Second):
		}
	}
	deadline := time.Now().Add(time.Second)
	for time.Now().Before(deadline) && len(relayGoroutines(s.base)) > 0 {
		time.Sleep(5 * time.Millisecond)
	}
	var ids []string
	for _, g := range relayGoroutines(s.base) {
		ids = append(ids, g.ID)
	}
	Retire(ids...)
}

// RunProxyCell executes one cell of the via-proxy family.
func RunProxyCell(c Cell, rng *rand.Rand, budget *Budget, attempt int) *Result {
	t0 := time.Now()
	timeout := ProxyTimeoutFor(attempt)
	res := &Result{Params: map[string]interface{}{"proxy_timeout": timeout.String(), "attempt": attempt + 1}}
	s := &proxySession{rng: rng, cell: c, res: res, budget: budget, timeout: timeout}
	defer func() {
		s.teardown()
		res.WallMS = time.Since(t0).Milliseconds()
	}()
	if !s.start() || !s.establish() {
		return res
	}
	if len(handlerGoroutines(s.base)) == 0 {
		s.fail("the connection handler ended before the event (state took longer than the proxy timeout?)")
		return res
	}
	res.Established = true
	if !s.fire() {
		res.Established = false
		return res
	}
	s.oracle()
	return res
}
