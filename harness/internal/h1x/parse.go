// Package h1x holds the HTTP/1 harness pieces shared by C01 and C03: an
// independent minimal HTTP/1 message parser (never net/http), a scripted
// origin, a monitored proxy-side listener, a recording raw client and a proxy
// starter.
package h1x

import (
	"bytes"
	"strconv"
	"strings"
)

// Header is one header line as seen on the wire: name verbatim, value with
// optional whitespace trimmed.
type Header struct {
	Name  string `json:"n"`
	Value string `json:"v"`
}

// Parse stages / outcomes.
const (
	StComplete   = "complete"   // a whole message was parsed
	StIncomplete = "incomplete" // the bytes end before the message does
	StMalformed  = "malformed"  // syntax error
)

// Stages at which an incomplete / malformed message stopped.
const (
	AtStartLine = "start-line"
	AtHeaders   = "headers"
	AtBody      = "body"
)

// Msg is a parsed request or response (possibly partial).
type Msg struct {
	IsResponse bool
	// request line
	Method, Target string
	// status line
	Status  int
	Reason  string
	Proto   string
	Headers []Header
	// Framing: "none", "cl", "chunked", "eof"
	Framing string
	CL      int64  // declared Content-Length (-1 none)
	Body    []byte // de-framed body bytes received so far
	HeadLen int    // bytes of start line + headers + blank line (0 if head incomplete)
	Len     int    // bytes consumed by the message (if complete)
	Outcome string
	Stage   string // where an incomplete/malformed parse stopped
	Err     string
	// BodyRaw is the raw (still framed) body region received so far.
	BodyRaw []byte
}

// Get returns the values of a header (case-insensitive), in order.
func (m *Msg) Get(name string) []string {
	var out []string
	for _, h := range m.Headers {
		if strings.EqualFold(h.Name, name) {
			out = append(out, h.Value)
		}
	}
	return out
}

// Has reports whether the header is present.
func (m *Msg) Has(name string) bool { return len(m.Get(name)) > 0 }

// HasToken reports whether a comma-separated header contains token.
func (m *Msg) HasToken(name, token string) bool {
	for _, v := range m.Get(name) {
		for _, t := range strings.Split(v, ",") {
			if strings.EqualFold(strings.TrimSpace(t), token) {
				return true
			}
		}
	}
	return false
}

func isTChar(c byte) bool {
	switch {
	case c >= 'a' && c <= 'z', c >= 'A' && c <= 'Z', c >= '0' && c <= '9':
		return true
	}
	return strings.IndexByte("!#$%&'*+-.^_`|~", c) >= 0
}

func isToken(s string) bool {
	if s == "" {
		return false
	}
	for i := 0; i < len(s); i++ {
		if !isTChar(s[i]) {
			return false
		}
	}
	return true
}

func trimOWS(s string) string { return strings.Trim(s, " \t") }

// line returns the line starting at off without its CRLF and the offset after
// it; ok=false if no complete line; bad=true if a bare LF terminates it.
func line(b []byte, off int) (l []byte, next int, ok, bad bool) {
	i := bytes.IndexByte(b[off:], '\n')
	if i < 0 {
		return nil, off, false, false
	}
	if i == 0 || b[off+i-1] != '\r' {
		return b[off : off+i], off + i + 1, true, true
	}
	return b[off : off+i-1], off + i + 1, true, false
}

func validProto(p string) bool { return p == "HTTP/1.1" || p == "HTTP/1.0" }

// ParseResponse parses one response from b. method is the request method
// (HEAD responses have no body); eof tells whether the stream ended after b
// (needed for close-delimited bodies).
func ParseResponse(b []byte, method string, eof bool) *Msg {
	m := &Msg{IsResponse: true, CL: -1}
	l, off, ok, bad := line(b, 0)
	if !ok {
		return m.stop(StIncomplete, AtStartLine, "")
	}
	if bad {
		return m.stop(StMalformed, AtStartLine, "bare LF in status line")
	}
	s := string(l)
	p := strings.SplitN(s, " ", 3)
	if len(p) < 2 || !validProto(p[0]) || len(p[1]) != 3 {
		return m.stop(StMalformed, AtStartLine, "bad status line "+strconv.Quote(trunc(s)))
	}
	code, err := strconv.Atoi(p[1])
	if err != nil || code < 100 || code > 999 {
		return m.stop(StMalformed, AtStartLine, "bad status code "+strconv.Quote(trunc(s)))
	}
	m.Proto, m.Status = p[0], code
	if len(p) == 3 {
		m.Reason = p[2]
	}
	return m.headersAndBody(b, off, method, eof)
}

// ParseRequest parses one request from b.
func ParseRequest(b []byte) *Msg {
	m := &Msg{CL: -1}
	l, off, ok, bad := line(b, 0)
	if !ok {
		return m.stop(StIncomplete, AtStartLine, "")
	}
	if bad {
		return m.stop(StMalformed, AtStartLine, "bare LF in request line")
	}
	p := strings.Split(string(l), " ")
	if len(p) != 3 || !isToken(p[0]) || p[1] == "" || !validProto(p[2]) {
		return m.stop(StMalformed, AtStartLine, "bad request line "+strconv.Quote(trunc(string(l))))
	}
	m.Method, m.Target, m.Proto = p[0], p[1], p[2]
	return m.headersAndBody(b, off, "", false)
}

func trunc(s string) string {
	if len(s) > 80 {
		return s[:80] + "..."
	}
	return s
}

func (m *Msg) stop(outcome, stage, err string) *Msg {
	m.Outcome, m.Stage, m.Err = outcome, stage, err
	return m
}

func (m *Msg) headersAndBody(b []byte, off int, method string, eof bool) *Msg {
	for {
		l, next, ok, bad := line(b, off)
		if !ok {
			return m.stop(StIncomplete, AtHeaders, "")
		}
		if bad {
			return m.stop(StMalformed, AtHeaders, "bare LF in header section")
		}
		off = next
		if len(l) == 0 {
			break
		}
		i := bytes.IndexByte(l, ':')
		if i <= 0 || !isToken(string(l[:i])) {
			return m.stop(StMalformed, AtHeaders, "bad header line "+strconv.Quote(trunc(string(l))))
		}
		// field-value = VCHAR / obs-text / SP / HTAB (RFC 7230 3.2): no other control bytes
		for _, b := range l[i+1:] {
			if (b < 0x20 && b != '\t') || b == 0x7f {
				return m.stop(StMalformed, AtHeaders, "control byte in the value of header "+strconv.Quote(string(l[:i])))
			}
		}
		m.Headers = append(m.Headers, Header{Name: string(l[:i]), Value: trimOWS(string(l[i+1:]))})
	}
	m.HeadLen = off
	// framing
	chunked := false
	if te := m.Get("Transfer-Encoding"); len(te) > 0 {
		last := te[len(te)-1]
		toks := strings.Split(last, ",")
		if strings.EqualFold(strings.TrimSpace(toks[len(toks)-1]), "chunked") {
			chunked = true
		} else {
			return m.stop(StMalformed, AtHeaders, "Transfer-Encoding without final chunked")
		}
	}
	if cls := m.Get("Content-Length"); len(cls) > 0 {
		for _, c := range cls {
			if c != cls[0] {
				return m.stop(StMalformed, AtHeaders, "conflicting Content-Length")
			}
		}
		n, err := strconv.ParseInt(cls[0], 10, 64)
		if err != nil || n < 0 || cls[0] == "" || cls[0][0] == '+' {
			return m.stop(StMalformed, AtHeaders, "bad Content-Length "+strconv.Quote(cls[0]))
		}
		m.CL = n
	}
	switch {
	case m.IsResponse && (method == "HEAD" || m.Status/100 == 1 || m.Status == 204 || m.Status == 304):
		m.Framing = "none"
	case chunked:
		m.Framing = "chunked"
	case m.CL >= 0:
		m.Framing = "cl"
	case m.IsResponse:
		m.Framing = "eof"
	default:
		m.Framing = "none"
	}
	rest := b[off:]
	switch m.Framing {
	case "none":
		m.Len = off
		return m.stop(StComplete, "", "")
	case "cl":
		if int64(len(rest)) < m.CL {
			m.Body, m.BodyRaw = rest, rest
			return m.stop(StIncomplete, AtBody, "")
		}
		m.Body = rest[:m.CL]
		m.BodyRaw = m.Body
		m.Len = off + int(m.CL)
		return m.stop(StComplete, "", "")
	case "eof":
		m.Body, m.BodyRaw = rest, rest
		if !eof {
			return m.stop(StIncomplete, AtBody, "")
		}
		m.Len = len(b)
		return m.stop(StComplete, "", "")
	}
	// chunked
	m.BodyRaw = rest
	p := 0
	var body []byte
	for {
		l, next, ok, bad := line(rest, p)
		if !ok {
			m.Body = body
			return m.stop(StIncomplete, AtBody, "in chunk-size line")
		}
		if bad {
			m.Body = body
			return m.stop(StMalformed, AtBody, "bare LF in chunk-size line")
		}
		sz := string(l)
		if i := strings.IndexByte(sz, ';'); i >= 0 {
			sz = sz[:i]
		}
		sz = trimOWS(sz)
		n, err := strconv.ParseUint(sz, 16, 31)
		if err != nil || sz == "" {
			m.Body = body
			return m.stop(StMalformed, AtBody, "bad chunk size "+strconv.Quote(trunc(string(l))))
		}
		p = next
		if n == 0 {
			// trailer section: lines until an empty one
			for {
				l, next, ok, bad := line(rest, p)
				if !ok {
					m.Body = body
					return m.stop(StIncomplete, AtBody, "in trailer")
				}
				if bad {
					m.Body = body
					return m.stop(StMalformed, AtBody, "bare LF in trailer")
				}
				p = next
				if len(l) == 0 {
					break
				}
			}
			m.Body = body
			m.BodyRaw = rest[:p]
			m.Len = off + p
			return m.stop(StComplete, "", "")
		}
		if len(rest)-p < int(n) {
			body = append(body, rest[p:]...)
			m.Body = body
			return m.stop(StIncomplete, AtBody, "in chunk data")
		}
		body = append(body, rest[p:p+int(n)]...)
		p += int(n)
		if len(rest)-p < 2 {
			m.Body = body
			return m.stop(StIncomplete, AtBody, "after chunk data")
		}
		if rest[p] != '\r' || rest[p+1] != '\n' {
			m.Body = body
			return m.stop(StMalformed, AtBody, "chunk data not followed by CRLF")
		}
		p += 2
	}
}

// PctDecode percent-decodes s; malformed escapes are kept literally.
func PctDecode(s string) string {
	var sb strings.Builder
	for i := 0; i < len(s); i++ {
		if s[i] == '%' && i+2 < len(s)+0 && i+2 <= len(s)-1 {
			if v, err := strconv.ParseUint(s[i+1:i+3], 16, 8); err == nil {
				sb.WriteByte(byte(v))
				i += 2
				continue
			}
		}
		sb.WriteByte(s[i])
	}
	return sb.String()
}
