package h1x

import (
	"bytes"
	"errors"
	"fmt"
	"io"
	"net"
	"os"
	"sync"
	"sync/atomic"
	"syscall"
	"time"

	"verifharness/internal/vh"
)

// Action is what the scripted origin does in answer to a request (or, from
// OnConn, right after accepting).
type Action struct {
	Write []byte // bytes to write (may be nil)
	Cuts  []int  // optional segmentation of Write
	Close bool   // close the connection afterwards
	// Reset (with Close): abort the connection instead of closing it in an
	// orderly way. Over TCP this is a close with SO_LINGER 0 (the peer gets a
	// RST); in memory the peer's reads fail with ECONNRESET once the bytes
	// written so far have been read.
	Reset bool
	// Delay is slept before writing (workloads whose trigger is a connection age).
	Delay time.Duration
	// NoRead (early answers only): after writing, never read another byte of
	// this connection; it is held open until the peer or Shutdown closes it.
	NoRead bool
}

// Received is one request as parsed by the origin's own parser.
type Received struct {
	Conn int
	Msg  *Msg
	// Early: the request was answered as soon as its head was complete; Msg
	// holds the head (and whatever part of the body had arrived).
	Early bool
}

// Origin is a scripted raw origin server (in-memory or loopback TCP).
type Origin struct {
	// Handle decides the answer to a parsed request. It runs on the
	// connection's goroutine. A nil Handle closes.
	Handle func(conn, idx int, m *Msg) Action
	// OnConn, if set and returning non-nil, is performed right after accept
	// without reading a request.
	OnConn func(conn int) *Action
	// EarlyHead, if set, is asked once per request as soon as the head is
	// complete while the body is not: a non-nil Action is the origin's answer,
	// sent before (NoRead: instead of) reading the rest of the body. The
	// request is then not passed to Handle again.
	EarlyHead func(conn, idx int, head *Msg) *Action

	tcp   net.Listener
	cap   int
	mu    sync.Mutex
	reqs  []Received
	cs    []net.Conn
	n     int
	shut  bool
	peers map[net.Conn]*resetConn
	done  chan struct{}
	wg    sync.WaitGroup

	in, out int64
}

// NewOrigin starts an origin.
func NewOrigin(tcp bool, capacity int) (*Origin, error) {
	o := &Origin{cap: capacity, done: make(chan struct{})}
	if tcp {
		t, err := net.Listen("tcp", "127.0.0.1:0")
		if err != nil {
			return nil, err
		}
		o.tcp = t
		go func() {
			for {
				c, err := t.Accept()
				if err != nil {
					return
				}
				o.start(c)
			}
		}()
	}
	return o, nil
}

// Addr is the TCP address (TCP mode).
func (o *Origin) Addr() string {
	if o.tcp != nil {
		return o.tcp.Addr().String()
	}
	return "10.2.2.2:80"
}

// Dial gives the proxy a connection to the origin.
func (o *Origin) Dial() (net.Conn, error) {
	if o.tcp != nil {
		return net.Dial("tcp", o.tcp.Addr().String())
	}
	o.mu.Lock()
	shut := o.shut
	o.mu.Unlock()
	if shut {
		return nil, errors.New("h1x origin: shut down")
	}
	a, b := vh.Pipe(o.cap, "10.1.1.1:40000", "10.2.2.2:80")
	w := &resetConn{PipeConn: a}
	o.mu.Lock()
	if o.peers == nil {
		o.peers = map[net.Conn]*resetConn{}
	}
	o.peers[b] = w
	o.mu.Unlock()
	o.start(b)
	return w, nil
}

// resetConn is the proxy-side end of an in-memory upstream connection; after
// the origin aborted, the end of the stream is reported as a connection reset.
type resetConn struct {
	*vh.PipeConn
	aborted int32
}

func (c *resetConn) Read(p []byte) (int, error) {
	n, err := c.PipeConn.Read(p)
	if err == io.EOF && atomic.LoadInt32(&c.aborted) != 0 {
		err = &net.OpError{Op: "read", Net: "tcp", Source: c.LocalAddr(), Addr: c.RemoteAddr(), Err: os.NewSyscallError("read", syscall.ECONNRESET)}
	}
	return n, err
}

func (o *Origin) start(c net.Conn) {
	o.mu.Lock()
	if o.shut {
		o.mu.Unlock()
		c.Close()
		return
	}
	idx := o.n
	o.n++
	o.cs = append(o.cs, c)
	o.wg.Add(1)
	o.mu.Unlock()
	go o.serve(idx, c)
}

func (o *Origin) closeConn(c net.Conn) {
	if tc, ok := c.(*net.TCPConn); ok {
		// graceful close so that written bytes are delivered before the FIN
		tc.CloseWrite()
	}
	c.Close()
}

func (o *Origin) perform(c net.Conn, a Action) bool {
	if a.Delay > 0 {
		time.Sleep(a.Delay)
	}
	prev := 0
	for _, cut := range append(append([]int(nil), a.Cuts...), len(a.Write)) {
		if cut <= prev || cut > len(a.Write) {
			continue
		}
		n, err := c.Write(a.Write[prev:cut])
		atomic.AddInt64(&o.out, int64(n))
		if err != nil {
			return false
		}
		prev = cut
	}
	if a.Close && a.Reset {
		if tc, ok := c.(*net.TCPConn); ok {
			tc.SetLinger(0)
			tc.Close()
		} else {
			o.mu.Lock()
			w := o.peers[c]
			o.mu.Unlock()
			if w != nil {
				atomic.StoreInt32(&w.aborted, 1)
			}
			c.Close()
		}
	}
	return !a.Close
}

func (o *Origin) serve(conn int, c net.Conn) {
	defer o.wg.Done()
	defer o.closeConn(c)
	if o.OnConn != nil {
		if a := o.OnConn(conn); a != nil {
			if !o.perform(c, *a) {
				return
			}
		}
	}
	var buf []byte
	rb := make([]byte, 64<<10)
	need := 0 // do not try to parse before len(buf) >= need
	chunkedWait := false
	answered := false // the request being read was answered early
	idx := 0
	for {
		n, err := c.Read(rb)
		atomic.AddInt64(&o.in, int64(n))
		buf = append(buf, rb[:n]...)
		for len(buf) > 0 && len(buf) >= need {
			// cheap pre-checks so that large bodies are not re-parsed per read
			if !bytes.Contains(buf[:min(len(buf), 1<<20)], crlfcrlf) && len(buf) < 1<<20 {
				break
			}
			// the upstream never pipelines, so a complete chunked message ends
			// the buffer with CRLF CRLF
			// (not after an early answer: the transport may then send the next
			// request directly behind the body)
			if chunkedWait && !answered && !bytes.HasSuffix(buf, crlfcrlf) {
				break
			}
			m := ParseRequest(buf)
			if m.Outcome == StIncomplete && m.HeadLen > 0 && !answered && o.EarlyHead != nil {
				if a := o.EarlyHead(conn, idx, m); a != nil {
					cp := *m
					cp.Body = append([]byte(nil), m.Body...)
					cp.BodyRaw = nil
					o.mu.Lock()
					o.reqs = append(o.reqs, Received{conn, &cp, true})
					o.mu.Unlock()
					answered = true
					idx++
					if !o.perform(c, *a) {
						return
					}
					if a.NoRead {
						<-o.done
						return
					}
				}
			}
			if m.Outcome == StIncomplete {
				need = len(buf) + 1
				if m.Framing == "cl" {
					need = m.HeadLen + int(m.CL)
				}
				chunkedWait = m.Framing == "chunked"
				break
			}
			need, chunkedWait = 0, false
			if m.Outcome == StMalformed {
				o.mu.Lock()
				o.reqs = append(o.reqs, Received{conn, m, false})
				o.mu.Unlock()
				return
			}
			if answered {
				// already answered early; the body has now been read to its end
				answered = false
				buf = buf[m.Len:]
				continue
			}
			// own the bytes: buf is re-used
			cp := *m
			cp.Body = append([]byte(nil), m.Body...)
			cp.BodyRaw = nil
			o.mu.Lock()
			o.reqs = append(o.reqs, Received{conn, &cp, false})
			o.mu.Unlock()
			buf = buf[m.Len:]
			if o.Handle == nil {
				return
			}
			a := o.Handle(conn, idx, &cp)
			idx++
			if !o.perform(c, a) {
				return
			}
		}
		if err != nil {
			return
		}
	}
}

// Requests returns the requests received so far.
func (o *Origin) Requests() []Received {
	o.mu.Lock()
	defer o.mu.Unlock()
	return append([]Received(nil), o.reqs...)
}

// Conns is the number of connections accepted so far.
func (o *Origin) Conns() int {
	o.mu.Lock()
	defer o.mu.Unlock()
	return o.n
}

// Activity is a progress fingerprint.
func (o *Origin) Activity() string {
	o.mu.Lock()
	defer o.mu.Unlock()
	return fmt.Sprintf("origin in=%d out=%d reqs=%d conns=%d", atomic.LoadInt64(&o.in), atomic.LoadInt64(&o.out), len(o.reqs), o.n)
}

// Shutdown closes the listener and every connection and waits for the
// connection goroutines.
func (o *Origin) Shutdown() {
	o.mu.Lock()
	if !o.shut {
		close(o.done)
	}
	o.shut = true
	cs := o.cs
	o.mu.Unlock()
	if o.tcp != nil {
		o.tcp.Close()
	}
	for _, c := range cs {
		if tc, ok := c.(*net.TCPConn); ok {
			tc.SetLinger(0)
		}
		c.Close()
	}
	o.wg.Wait()
}

var crlfcrlf = []byte("\r\n\r\n")

func min(a, b int) int {
	if a < b {
		return a
	}
	return b
}
