package h1x

import (
	"fmt"
	"net"
	"net/http"
	"sync"
	"time"

	martian "github.com/google/martian/v3"
	"github.com/google/martian/v3/mitm"
)

// Opts configures Start.
type Opts struct {
	TCP    bool // loopback TCP instead of in-memory pipes
	Cap    int  // pipe capacity per direction (default 64 KiB)
	ResMod martian.ResponseModifier
	ReqMod martian.RequestModifier
	MITM   *mitm.Config // if set, CONNECT requests are MITM'd
}

// Env is a running martian proxy with a scripted origin behind it.
type Env struct {
	Proxy  *martian.Proxy
	L      *Listener
	Origin *Origin

	mu     sync.Mutex
	routes map[string]func() (net.Conn, error)
	dials  []string
	served chan struct{}
}

// Start builds the proxy (public API only: NewProxy, SetDial, Serve).
func Start(o Opts) (*Env, error) {
	if o.Cap == 0 {
		o.Cap = 64 << 10
	}
	l, err := NewListener(o.TCP, o.Cap)
	if err != nil {
		return nil, err
	}
	or, err := NewOrigin(o.TCP, o.Cap)
	if err != nil {
		l.Close()
		return nil, err
	}
	e := &Env{Proxy: martian.NewProxy(), L: l, Origin: or, routes: map[string]func() (net.Conn, error){}, served: make(chan struct{})}
	e.Proxy.SetDial(e.dial)
	if o.ResMod != nil {
		e.Proxy.SetResponseModifier(o.ResMod)
	}
	if o.ReqMod != nil {
		e.Proxy.SetRequestModifier(o.ReqMod)
	}
	if o.MITM != nil {
		e.Proxy.SetMITM(o.MITM)
	}
	go func() {
		e.Proxy.Serve(l)
		close(e.served)
	}()
	return e, nil
}

// Route makes the proxy's dials to addr ("host:port") use f.
func (e *Env) Route(addr string, f func() (net.Conn, error)) {
	e.mu.Lock()
	e.routes[addr] = f
	e.mu.Unlock()
}

// RouteOrigin routes addr to the scripted origin.
func (e *Env) RouteOrigin(addr string) { e.Route(addr, e.Origin.Dial) }

func (e *Env) dial(network, addr string) (net.Conn, error) {
	e.mu.Lock()
	f := e.routes[addr]
	e.dials = append(e.dials, addr)
	e.mu.Unlock()
	if f == nil {
		return nil, &net.OpError{Op: "dial", Net: network, Err: fmt.Errorf("harness: no route to %s", addr)}
	}
	return f()
}

// Dials returns the addresses the proxy dialled so far.
func (e *Env) Dials() []string {
	e.mu.Lock()
	defer e.mu.Unlock()
	return append([]string(nil), e.dials...)
}

// Close tears everything down. It reports false if Proxy.Close did not return
// within a generous window (shutdown is C07's subject, not a verdict here).
func (e *Env) Close() bool {
	e.Origin.Shutdown()
	if tr, ok := e.Proxy.GetRoundTripper().(*http.Transport); ok {
		tr.CloseIdleConnections()
	}
	e.L.Close()
	done := make(chan struct{})
	go func() { e.Proxy.Close(); close(done) }()
	select {
	case <-done:
		if tr, ok := e.Proxy.GetRoundTripper().(*http.Transport); ok {
			tr.CloseIdleConnections()
		}
		return true
	case <-time.After(30 * time.Second):
		return false
	}
}
