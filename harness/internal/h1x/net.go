package h1x

import (
	"errors"
	"fmt"
	"io"
	"net"
	"sync"
	"time"

	"verifharness/internal/vh"
)

// MonConn wraps the proxy-side end of a client connection (the conn martian
// got from Accept) and counts, under one lock, Read entries/exits, bytes
// delivered to the proxy, bytes the proxy wrote and whether it closed. It is a
// pure boundary observer: it never alters data.
type MonConn struct {
	net.Conn
	mu      sync.Mutex
	rdIn    int64
	rdOut   int64
	rdBytes int64
	wrBytes int64
	wrCalls int64
	closed  bool
	wrErrs  int64
}

func (c *MonConn) Read(p []byte) (int, error) {
	c.mu.Lock()
	c.rdIn++
	c.mu.Unlock()
	n, err := c.Conn.Read(p)
	c.mu.Lock()
	c.rdOut++
	c.rdBytes += int64(n)
	c.mu.Unlock()
	return n, err
}

func (c *MonConn) Write(p []byte) (int, error) {
	n, err := c.Conn.Write(p)
	c.mu.Lock()
	c.wrBytes += int64(n)
	c.wrCalls++
	if err != nil {
		c.wrErrs++
	}
	c.mu.Unlock()
	return n, err
}

func (c *MonConn) Close() error {
	c.mu.Lock()
	c.closed = true
	c.mu.Unlock()
	return c.Conn.Close()
}

// Snap is a consistent snapshot of the counters.
type Snap struct {
	RdIn, RdOut, RdBytes, WrBytes int64
	Closed                        bool
}

func (c *MonConn) Snap() Snap {
	c.mu.Lock()
	defer c.mu.Unlock()
	return Snap{c.rdIn, c.rdOut, c.rdBytes, c.wrBytes, c.closed}
}

// Listener is the listener handed to martian.Proxy.Serve. In pipe mode
// connections are in-memory vh pipes; in TCP mode it wraps a loopback
// listener. Every accepted conn is wrapped in a MonConn.
type Listener struct {
	tcp   net.Listener
	ch    chan net.Conn
	done  chan struct{}
	once  sync.Once
	cap   int
	mu    sync.Mutex
	byRem map[string]*MonConn
	cond  *sync.Cond
	n     int
}

// NewListener creates a listener; tcp selects loopback TCP.
func NewListener(tcp bool, capacity int) (*Listener, error) {
	l := &Listener{ch: make(chan net.Conn, 64), done: make(chan struct{}), cap: capacity, byRem: map[string]*MonConn{}}
	l.cond = sync.NewCond(&l.mu)
	if tcp {
		t, err := net.Listen("tcp", "127.0.0.1:0")
		if err != nil {
			return nil, err
		}
		l.tcp = t
	}
	return l, nil
}

func (l *Listener) Accept() (net.Conn, error) {
	if l.tcp != nil {
		c, err := l.tcp.Accept()
		if err != nil {
			return nil, err
		}
		m := &MonConn{Conn: c}
		l.mu.Lock()
		l.byRem[c.RemoteAddr().String()] = m
		l.cond.Broadcast()
		l.mu.Unlock()
		return m, nil
	}
	select {
	case c := <-l.ch:
		return c, nil
	case <-l.done:
		return nil, net.ErrClosed
	}
}

func (l *Listener) Close() error {
	l.once.Do(func() { close(l.done) })
	if l.tcp != nil {
		return l.tcp.Close()
	}
	return nil
}

type strAddr string

func (a strAddr) Network() string { return "tcp" }
func (a strAddr) String() string  { return string(a) }

func (l *Listener) Addr() net.Addr {
	if l.tcp != nil {
		return l.tcp.Addr()
	}
	return strAddr("10.1.1.1:8080")
}

// Dial opens a client connection to the proxy and returns a recording client.
// seg, if non-nil, bounds how many bytes each Read of the proxy returns (pipe
// mode only).
func (l *Listener) Dial(seg func(avail int) int) (*Client, error) {
	c, m, err := l.DialRaw(seg)
	if err != nil {
		return nil, err
	}
	return newClient(c, m), nil
}

// DialRaw opens a client connection to the proxy without a recorder: the
// caller reads and writes the conn itself (e.g. to run a TLS handshake).
func (l *Listener) DialRaw(seg func(avail int) int) (net.Conn, *MonConn, error) {
	if l.tcp != nil {
		c, err := net.Dial("tcp", l.tcp.Addr().String())
		if err != nil {
			return nil, nil, err
		}
		if tc, ok := c.(*net.TCPConn); ok {
			tc.SetNoDelay(true)
		}
		key := c.LocalAddr().String()
		l.mu.Lock()
		// Accept (in the proxy's Serve goroutine) registers the conn and broadcasts.
		for l.byRem[key] == nil {
			l.cond.Wait()
		}
		m := l.byRem[key]
		delete(l.byRem, key)
		l.mu.Unlock()
		return c, m, nil
	}
	l.mu.Lock()
	l.n++
	id := l.n
	l.mu.Unlock()
	cl, sv := vh.Pipe(l.cap, fmt.Sprintf("10.9.8.7:%d", 20000+id%40000), "10.1.1.1:8080")
	sv.Seg = seg
	m := &MonConn{Conn: sv}
	select {
	case l.ch <- m:
	case <-l.done:
		return nil, nil, errors.New("h1x: listener closed")
	}
	return cl, m, nil
}

// Client is a raw client connection with a background recorder of every byte
// received. Nothing is parsed while receiving; the recorded stream is parsed
// offline at observation points.
type Client struct {
	C   net.Conn
	Mon *MonConn

	mu     sync.Mutex
	buf    []byte
	done   bool   // reader finished
	eof    bool   // ... with a clean EOF
	rerr   string // ... or with this error
	sent   int64
	wclose bool
	fin    chan struct{}
	marks  []mark // arrival time of every chunk received
}

type mark struct {
	end int // stream offset after the chunk
	t   time.Time
}

// ArrivalOf returns when the byte at stream offset off-1 (i.e. the first off
// bytes) had been received by the client; zero if not yet.
func (cl *Client) ArrivalOf(off int) time.Time {
	cl.mu.Lock()
	defer cl.mu.Unlock()
	for _, m := range cl.marks {
		if m.end >= off {
			return m.t
		}
	}
	return time.Time{}
}

func newClient(c net.Conn, m *MonConn) *Client {
	cl := &Client{C: c, Mon: m, fin: make(chan struct{})}
	go cl.readLoop()
	return cl
}

func (cl *Client) readLoop() {
	defer close(cl.fin)
	b := make([]byte, 64<<10)
	for {
		n, err := cl.C.Read(b)
		cl.mu.Lock()
		if n > 0 {
			cl.buf = append(cl.buf, b[:n]...)
			if len(cl.marks) < 1<<16 {
				cl.marks = append(cl.marks, mark{len(cl.buf), time.Now()})
			}
		}
		if err != nil {
			cl.done = true
			if err == io.EOF {
				cl.eof = true
			} else {
				cl.rerr = err.Error()
			}
			cl.mu.Unlock()
			return
		}
		cl.mu.Unlock()
	}
}

// Send writes b cut into pieces at the given offsets (ascending, within b).
// Write errors are returned (after a proxy-side close they are expected).
func (cl *Client) Send(b []byte, cuts []int) error {
	prev := 0
	for _, c := range append(append([]int(nil), cuts...), len(b)) {
		if c <= prev || c > len(b) {
			continue
		}
		n, err := cl.C.Write(b[prev:c])
		cl.mu.Lock()
		cl.sent += int64(n)
		cl.mu.Unlock()
		if err != nil {
			return err
		}
		prev = c
	}
	return nil
}

// View is a snapshot of what the client has observed.
type View struct {
	Data   []byte // all bytes received so far (shared backing array; do not modify)
	Closed bool   // the receive side ended (EOF or error)
	EOF    bool
	Err    string
	Sent   int64
}

func (cl *Client) View() View {
	cl.mu.Lock()
	defer cl.mu.Unlock()
	return View{Data: cl.buf[:len(cl.buf):len(cl.buf)], Closed: cl.done, EOF: cl.eof, Err: cl.rerr, Sent: cl.sent}
}

// Quiet reports whether the exchange so far has run to an observation point:
// either the client has seen the connection end, or the proxy has consumed
// every byte sent, is parked in a new Read on the client connection (it is
// waiting for the next request, so everything it was going to write for the
// requests sent so far has been written) and the recorder has received every
// byte the proxy wrote.
func (cl *Client) Quiet() (quiet, idle bool) {
	cl.mu.Lock()
	done, got, sent := cl.done, int64(len(cl.buf)), cl.sent
	cl.mu.Unlock()
	if done {
		return true, false
	}
	s := cl.Mon.Snap()
	if !s.Closed && s.RdIn == s.RdOut+1 && s.RdBytes == sent && s.WrBytes == got {
		return true, true
	}
	return false, false
}

// Activity is a progress fingerprint for vh.Await.
func (cl *Client) Activity() string {
	cl.mu.Lock()
	got, sent, done := len(cl.buf), cl.sent, cl.done
	cl.mu.Unlock()
	s := cl.Mon.Snap()
	return fmt.Sprintf("got=%d sent=%d done=%v mon=%+v", got, sent, done, s)
}

// CloseWrite half-closes the sending direction if supported.
func (cl *Client) CloseWrite() {
	type cw interface{ CloseWrite() error }
	if c, ok := cl.C.(cw); ok {
		c.CloseWrite()
	}
}

// Close closes the client connection (TCP: with linger 0) and waits for the
// recorder to finish.
func (cl *Client) Close() {
	if tc, ok := cl.C.(*net.TCPConn); ok {
		tc.SetLinger(0)
	}
	cl.C.Close()
	<-cl.fin
}

// AwaitCond waits for cond; quick path by polling, then the quiescence oracle.
func AwaitCond(cond func() bool, activity func() string) (vh.Outcome, string) {
	// fast path: spin politely for a short while (most conditions become true
	// within microseconds); this decides nothing.
	d := 20 * time.Microsecond
	t0 := time.Now()
	for time.Since(t0) < 2*time.Second {
		if cond() {
			return vh.Happened, ""
		}
		time.Sleep(d)
		if d < 2*time.Millisecond {
			d *= 2
		}
	}
	return vh.Await(cond, vh.AwaitOpts{Activity: activity, Watchdog: 90 * time.Second})
}

// AwaitQuiet waits until the client is at an observation point.
func (cl *Client) AwaitQuiet(extra func() string) (vh.Outcome, string) {
	return AwaitCond(func() bool { q, _ := cl.Quiet(); return q }, func() string {
		s := cl.Activity()
		if extra != nil {
			s += " " + extra()
		}
		return s
	})
}
