// Package vh is the common machinery of the martian runtime-monitoring
// harness: child-process protocol (PLAN / CASE / VIOL / INCONC / SUMMARY
// lines on stdout), seeded PRNGs, coverage tallies.
package vh

import (
	"encoding/json"
	"flag"
	"fmt"
	"math/rand"
	"os"
	"runtime/debug"
	"sort"
	"sync"
	"time"
)

// Batch is one child-process invocation planned by a property binary.
type Batch struct {
	Name     string `json:"name"`
	Race     bool   `json:"race,omitempty"`      // run with the -race build
	TimeoutS int    `json:"timeout_s,omitempty"` // watchdog (SIGQUIT), default 600
	Serial   bool   `json:"serial,omitempty"`    // run with nothing else running
	Strace   bool   `json:"strace,omitempty"`    // run under strace -f -e trace=openat,open
	MemMB    int    `json:"mem_mb,omitempty"`    // ulimit -v for the child (0 = none)
	// ExpectDeath: the batch may legitimately not reach SUMMARY only when a
	// violation killed it; the driver always treats a dead child as a violation.
}

// Prop describes one property binary.
type Prop struct {
	ID          string
	Level       string // exploration | fault_enumeration
	Rule        string
	Assumptions []string
	RaceFiles   []string // path fragments; a race report is attributed to the property if a frame matches
	Exhaustive  func(tier string) bool
	Plan        func(tier string, seed int64) []Batch
	Run         func(r *Run, batch string)
	Replay      func(r *Run, c json.RawMessage)
	// HangDetect (opt-in, only for workloads without legitimate quiet periods):
	// the batch runs in a goroutine and a monitor declares "<ID>:hang:call-never-returned"
	// when the batch has made no progress (no evaluation, no new case) while every
	// goroutine with a martian frame has been parked with an identical stack for a
	// long quiescence window. The witness is the goroutine fingerprint.
	HangDetect bool
}

// Run is the per-child reporting context. All methods are goroutine-safe.
type Run struct {
	Prop  *Prop
	Tier  string
	Seed  int64
	Batch string
	Work  string // scratch dir for this batch (exists)

	mu       sync.Mutex
	out      *os.File
	evals    int64
	classes  map[string]int64
	counts   map[string]int64
	samples  []interface{}
	viols    int
	inconc   int
	curCase  json.RawMessage
	maxSamp  int
	sigsSeen map[string]int
	start    time.Time
}

// Thorough reports whether the tier is "thorough".
func (r *Run) Thorough() bool { return r.Tier == "thorough" }

// Pick returns q for quick and t for thorough.
func (r *Run) Pick(q, t int) int {
	if r.Thorough() {
		return t
	}
	return q
}

func (r *Run) line(tag string, v interface{}) {
	b, err := json.Marshal(v)
	if err != nil {
		b, _ = json.Marshal(fmt.Sprintf("unmarshalable: %v", err))
	}
	buf := make([]byte, 0, len(tag)+len(b)+2)
	buf = append(buf, tag...)
	buf = append(buf, ' ')
	buf = append(buf, b...)
	buf = append(buf, '\n')
	r.out.Write(buf)
}

// Case logs the case about to be executed (before executing it), so that a
// process death leaves the failing input on disk. It also makes it the
// "current case" attached to subsequent violations from this goroutine set.
func (r *Run) Case(c interface{}) {
	b, _ := json.Marshal(c)
	r.mu.Lock()
	r.curCase = b
	r.line("CASE", json.RawMessage(b))
	r.mu.Unlock()
}

// SetCase sets the current case without logging it (for enumerations too large
// to log case by case; the enclosing group must have been logged with Case).
func (r *Run) SetCase(c interface{}) {
	b, _ := json.Marshal(c)
	r.mu.Lock()
	r.curCase = b
	r.mu.Unlock()
}

// Eval counts n executed evaluations.
func (r *Run) Eval(n int) {
	r.mu.Lock()
	r.evals += int64(n)
	r.mu.Unlock()
}

// Class tallies a coverage class observed by a monitor.
func (r *Run) Class(name string) {
	r.mu.Lock()
	r.classes[name]++
	r.mu.Unlock()
}

// Count adds n to a named counter reported in the evidence.
func (r *Run) Count(key string, n int64) {
	r.mu.Lock()
	r.counts[key] += n
	r.mu.Unlock()
}

// Sample keeps up to a few actual cases for the evidence file.
func (r *Run) Sample(v interface{}) {
	r.mu.Lock()
	if len(r.samples) < r.maxSamp {
		r.samples = append(r.samples, v)
	}
	r.mu.Unlock()
}

// Viol is a reported violation.
type Viol struct {
	Sig     string          `json:"sig"`
	What    string          `json:"what"`
	Case    json.RawMessage `json:"case,omitempty"`
	Witness interface{}     `json:"witness,omitempty"`
}

// Violation reports a violated clause. sig is "<prop>:<clause>:<class>".
// At most 5 full witnesses per signature are printed; the rest are counted.
func (r *Run) Violation(sig, what string, witness interface{}) {
	r.mu.Lock()
	defer r.mu.Unlock()
	r.viols++
	r.sigsSeen[sig]++
	if r.sigsSeen[sig] > 5 {
		return
	}
	r.line("VIOL", Viol{Sig: sig, What: what, Case: r.curCase, Witness: witness})
}

// ViolationCase is Violation with an explicit case (for concurrent runners).
func (r *Run) ViolationCase(c interface{}, sig, what string, witness interface{}) {
	b, _ := json.Marshal(c)
	r.mu.Lock()
	defer r.mu.Unlock()
	r.viols++
	r.sigsSeen[sig]++
	if r.sigsSeen[sig] > 5 {
		return
	}
	r.line("VIOL", Viol{Sig: sig, What: what, Case: b, Witness: witness})
}

// Inconclusive reports a case whose verdict could not be decided.
func (r *Run) Inconclusive(why string, detail interface{}) {
	r.mu.Lock()
	defer r.mu.Unlock()
	r.inconc++
	if r.inconc > 20 {
		return
	}
	r.line("INCONC", map[string]interface{}{"why": why, "case": r.curCase, "detail": detail})
}

// Violations returns the number reported so far.
func (r *Run) Violations() int {
	r.mu.Lock()
	defer r.mu.Unlock()
	return r.viols
}

func (r *Run) finish() {
	r.mu.Lock()
	defer r.mu.Unlock()
	r.line("SUMMARY", map[string]interface{}{
		"evaluations": r.evals,
		"classes":     r.classes,
		"counts":      r.counts,
		"samples":     r.samples,
		"violations":  r.viols,
		"sigs":        r.sigsSeen,
		"inconclusive": r.inconc,
		"wall_s":      time.Since(r.start).Seconds(),
	})
}

// Main is the entry point of a property binary.
func Main(p *Prop) {
	if len(os.Args) < 2 {
		fmt.Fprintln(os.Stderr, "usage: <bin> plan|run|replay ...")
		os.Exit(64)
	}
	debug.SetTraceback("all")
	fs := flag.NewFlagSet(os.Args[1], flag.ExitOnError)
	tier := fs.String("tier", "quick", "")
	seed := fs.Int64("seed", 1, "")
	batch := fs.String("batch", "", "")
	work := fs.String("work", "", "")
	file := fs.String("file", "", "")
	fs.Parse(os.Args[2:])
	switch os.Args[1] {
	case "plan":
		bs := p.Plan(*tier, *seed)
		ex := false
		if p.Exhaustive != nil {
			ex = p.Exhaustive(*tier)
		}
		b, _ := json.Marshal(map[string]interface{}{
			"id": p.ID, "level": p.Level, "rule": p.Rule, "assumptions": p.Assumptions,
			"race_files": p.RaceFiles, "batches": bs, "exhaustive": ex,
		})
		fmt.Printf("PLAN %s\n", b)
	case "run", "replay":
		if *work == "" {
			d, err := os.MkdirTemp("/verif/.work", "adhoc")
			if err != nil {
				d = os.TempDir()
			}
			*work = d
		}
		os.MkdirAll(*work, 0o755)
		r := &Run{Prop: p, Tier: *tier, Seed: *seed, Batch: *batch, Work: *work,
			out: os.Stdout, classes: map[string]int64{}, counts: map[string]int64{},
			maxSamp: 3, sigsSeen: map[string]int{}, start: time.Now()}
		if os.Args[1] == "run" && p.HangDetect {
			done := make(chan struct{})
			go func() { defer close(done); p.Run(r, *batch) }()
			for {
				out, fp := Await(func() bool {
					select {
					case <-done:
						return true
					default:
						return false
					}
				}, AwaitOpts{Grace: 3 * time.Second, Samples: 10, Interval: time.Second, Watchdog: 10 * time.Minute,
					Activity: func() string {
						r.mu.Lock()
						defer r.mu.Unlock()
						return fmt.Sprintf("%d/%d/%d", r.evals, r.viols, len(r.curCase))
					}})
				if out == Happened {
					break
				}
				if out == Stuck && len(MartianGoroutines()) > 0 {
					r.Violation(p.ID+":hang:call-never-returned", "a call into the code under test never returned: the batch made no progress and every martian goroutine is parked", map[string]interface{}{"goroutines": fp})
					r.finish()
					os.Exit(0)
				}
			}
		} else if os.Args[1] == "run" {
			p.Run(r, *batch)
		} else {
			raw, err := os.ReadFile(*file)
			if err != nil {
				fmt.Fprintln(os.Stderr, err)
				os.Exit(64)
			}
			var rf struct {
				Tier  string          `json:"tier"`
				Seed  int64           `json:"seed"`
				Batch string          `json:"batch"`
				Case  json.RawMessage `json:"case"`
			}
			if err := json.Unmarshal(raw, &rf); err != nil {
				fmt.Fprintln(os.Stderr, err)
				os.Exit(64)
			}
			r.Tier, r.Seed, r.Batch = rf.Tier, rf.Seed, rf.Batch
			if p.Replay == nil {
				fmt.Fprintln(os.Stderr, "replay not supported")
				os.Exit(64)
			}
			r.curCase = rf.Case
			r.line("CASE", rf.Case)
			p.Replay(r, rf.Case)
		}
		r.finish()
	default:
		fmt.Fprintln(os.Stderr, "unknown sub-command")
		os.Exit(64)
	}
}

// ---------------------------------------------------------------------------
// PRNG

func splitmix(x uint64) uint64 {
	x += 0x9e3779b97f4a7c15
	z := x
	z = (z ^ (z >> 30)) * 0xbf58476d1ce4e5b9
	z = (z ^ (z >> 27)) * 0x94d049bb133111eb
	return z ^ (z >> 31)
}

func hashStr(s string) uint64 {
	h := uint64(1469598103934665603)
	for i := 0; i < len(s); i++ {
		h ^= uint64(s[i])
		h *= 1099511628211
	}
	return h
}

// Rand returns the PRNG of case idx of stream name under seed.
func Rand(seed int64, name string, idx int) *rand.Rand {
	x := splitmix(uint64(seed)) ^ splitmix(hashStr(name)) ^ splitmix(uint64(idx)*0x632be59bd9b4e019+1)
	return rand.New(rand.NewSource(int64(splitmix(x) >> 1)))
}

// Rng is shorthand for Rand with the run's seed.
func (r *Run) Rng(name string, idx int) *rand.Rand { return Rand(r.Seed, name, idx) }

// SortedKeys returns the sorted keys of a tally.
func SortedKeys(m map[string]int64) []string {
	ks := make([]string, 0, len(m))
	for k := range m {
		ks = append(ks, k)
	}
	sort.Strings(ks)
	return ks
}

// Stamp fills b with an offset-stamped pattern: every 8 bytes encode
// (id, offset) so that loss, duplication, reordering and cross-talk are
// localised by the comparison.
func Stamp(id uint32, n int) []byte {
	b := make([]byte, n)
	StampInto(b, id, 0)
	return b
}

// StampInto writes the pattern for stream id starting at stream offset off.
func StampInto(b []byte, id uint32, off int64) {
	for i := range b {
		o := off + int64(i)
		blk := uint64(o / 8)
		var w [8]byte
		w[0] = byte(id >> 16)
		w[1] = byte(id >> 8)
		w[2] = byte(id)
		w[3] = byte(blk >> 32)
		w[4] = byte(blk >> 24)
		w[5] = byte(blk >> 16)
		w[6] = byte(blk >> 8)
		w[7] = byte(blk)
		// avoid CR/LF-only patterns looking like HTTP: xor with a constant
		b[i] = w[o%8] ^ 0x5a
	}
}

// FirstDiff returns the first index where a and b differ, or -1.
func FirstDiff(a, b []byte) int {
	n := len(a)
	if len(b) < n {
		n = len(b)
	}
	for i := 0; i < n; i++ {
		if a[i] != b[i] {
			return i
		}
	}
	if len(a) != len(b) {
		return n
	}
	return -1
}
