package vh

import (
	"errors"
	"io"
	"net"
	"os"
	"sync"
	"sync/atomic"
	"time"
)

// half is one direction of an in-memory duplex connection.
type half struct {
	mu       sync.Mutex
	cond     *sync.Cond
	buf      []byte
	capacity int
	wclosed  bool  // writer finished: reader gets EOF after draining
	rclosed  bool  // reader gone: writes fail
	werr     error // injected: writes fail with this error
	total    int64 // bytes ever written (atomic read)
	rdl, wdl time.Time
	rtimer   *time.Timer
	wtimer   *time.Timer
}

func newHalf(capacity int) *half {
	h := &half{capacity: capacity}
	h.cond = sync.NewCond(&h.mu)
	return h
}

// PipeConn is an in-memory net.Conn with a bounded buffer per direction,
// deadlines, half-close, read segmentation control and byte counters.
type PipeConn struct {
	rd, wr        *half
	local, remote net.Addr
	// Seg, if set, bounds how many bytes a Read may return (>=1) given the
	// number available; used to deliver bytes in arbitrarily small pieces.
	Seg func(avail int) int
	// OnRead / OnWrite observe completed calls (may be nil).
	readCalls  int64
	writeCalls int64
	closed     int32
}

type pipeAddr string

func (a pipeAddr) Network() string { return "tcp" }
func (a pipeAddr) String() string  { return string(a) }

// Pipe returns the two ends of an in-memory connection; each direction
// buffers up to capacity bytes.
func Pipe(capacity int, addrA, addrB string) (*PipeConn, *PipeConn) {
	ab, ba := newHalf(capacity), newHalf(capacity)
	a := &PipeConn{rd: ba, wr: ab, local: pipeAddr(addrA), remote: pipeAddr(addrB)}
	b := &PipeConn{rd: ab, wr: ba, local: pipeAddr(addrB), remote: pipeAddr(addrA)}
	return a, b
}

type timeoutErr struct{}

func (timeoutErr) Error() string   { return "i/o timeout" }
func (timeoutErr) Timeout() bool   { return true }
func (timeoutErr) Temporary() bool { return true }
func (timeoutErr) Unwrap() error   { return os.ErrDeadlineExceeded }

// ErrPipeReset is returned for writes after the peer closed.
var ErrPipeReset = errors.New("vh pipe: write on closed connection")

func (c *PipeConn) Read(p []byte) (int, error) {
	h := c.rd
	h.mu.Lock()
	defer h.mu.Unlock()
	atomic.AddInt64(&c.readCalls, 1)
	for {
		if atomic.LoadInt32(&c.closed) != 0 {
			return 0, io.ErrClosedPipe
		}
		if len(h.buf) > 0 {
			n := len(p)
			if n > len(h.buf) {
				n = len(h.buf)
			}
			if c.Seg != nil && n > 0 {
				if s := c.Seg(n); s >= 1 && s < n {
					n = s
				}
			}
			copy(p, h.buf[:n])
			h.buf = h.buf[n:]
			h.cond.Broadcast()
			return n, nil
		}
		if h.wclosed {
			return 0, io.EOF
		}
		if len(p) == 0 {
			return 0, nil
		}
		if !h.rdl.IsZero() && !time.Now().Before(h.rdl) {
			return 0, timeoutErr{}
		}
		h.cond.Wait()
	}
}

func (c *PipeConn) Write(p []byte) (int, error) {
	h := c.wr
	h.mu.Lock()
	defer h.mu.Unlock()
	atomic.AddInt64(&c.writeCalls, 1)
	n := 0
	for len(p) > 0 {
		if atomic.LoadInt32(&c.closed) != 0 {
			return n, io.ErrClosedPipe
		}
		if h.werr != nil {
			return n, h.werr
		}
		if h.rclosed || h.wclosed {
			return n, ErrPipeReset
		}
		if !h.wdl.IsZero() && !time.Now().Before(h.wdl) {
			return n, timeoutErr{}
		}
		room := h.capacity - len(h.buf)
		if room <= 0 {
			h.cond.Wait()
			continue
		}
		k := len(p)
		if k > room {
			k = room
		}
		h.buf = append(h.buf, p[:k]...)
		atomic.AddInt64(&h.total, int64(k))
		p = p[k:]
		n += k
		h.cond.Broadcast()
	}
	return n, nil
}

// Close closes both directions: the peer reads EOF after draining, peer
// writes fail.
func (c *PipeConn) Close() error {
	if !atomic.CompareAndSwapInt32(&c.closed, 0, 1) {
		return nil
	}
	c.wr.mu.Lock()
	c.wr.wclosed = true
	c.wr.cond.Broadcast()
	c.wr.mu.Unlock()
	c.rd.mu.Lock()
	c.rd.rclosed = true
	c.rd.cond.Broadcast()
	c.rd.mu.Unlock()
	return nil
}

// CloseWrite half-closes: the peer reads EOF after draining.
func (c *PipeConn) CloseWrite() error {
	c.wr.mu.Lock()
	c.wr.wclosed = true
	c.wr.cond.Broadcast()
	c.wr.mu.Unlock()
	return nil
}

// FailWrites makes every later Write on this end fail with err while reads
// stay as they are.
func (c *PipeConn) FailWrites(err error) {
	c.wr.mu.Lock()
	c.wr.werr = err
	c.wr.cond.Broadcast()
	c.wr.mu.Unlock()
}

// Closed reports whether Close was called on this end.
func (c *PipeConn) Closed() bool { return atomic.LoadInt32(&c.closed) != 0 }

// PeerClosed reports whether the other end has closed (its write side).
func (c *PipeConn) PeerClosed() bool {
	c.rd.mu.Lock()
	defer c.rd.mu.Unlock()
	return c.rd.wclosed
}

// Sent / Received byte counters and call counters.
func (c *PipeConn) Sent() int64       { return atomic.LoadInt64(&c.wr.total) }
func (c *PipeConn) Received() int64   { return atomic.LoadInt64(&c.rd.total) } // bytes the peer wrote toward us
func (c *PipeConn) ReadCalls() int64  { return atomic.LoadInt64(&c.readCalls) }
func (c *PipeConn) WriteCalls() int64 { return atomic.LoadInt64(&c.writeCalls) }

// Unread is the number of bytes buffered toward this end and not yet read.
func (c *PipeConn) Unread() int {
	c.rd.mu.Lock()
	defer c.rd.mu.Unlock()
	return len(c.rd.buf)
}

func (c *PipeConn) LocalAddr() net.Addr  { return c.local }
func (c *PipeConn) RemoteAddr() net.Addr { return c.remote }

func setDL(h *half, t time.Time, timer **time.Timer, dl *time.Time) {
	h.mu.Lock()
	*dl = t
	if *timer != nil {
		(*timer).Stop()
		*timer = nil
	}
	if !t.IsZero() {
		d := time.Until(t)
		if d < 0 {
			d = 0
		}
		*timer = time.AfterFunc(d, func() {
			h.mu.Lock()
			h.cond.Broadcast()
			h.mu.Unlock()
		})
	}
	h.cond.Broadcast()
	h.mu.Unlock()
}

func (c *PipeConn) SetDeadline(t time.Time) error {
	c.SetReadDeadline(t)
	c.SetWriteDeadline(t)
	return nil
}
func (c *PipeConn) SetReadDeadline(t time.Time) error {
	setDL(c.rd, t, &c.rd.rtimer, &c.rd.rdl)
	return nil
}
func (c *PipeConn) SetWriteDeadline(t time.Time) error {
	setDL(c.wr, t, &c.wr.wtimer, &c.wr.wdl)
	return nil
}

// PipeListener is an in-memory net.Listener.
type PipeListener struct {
	ch     chan net.Conn
	done   chan struct{}
	once   sync.Once
	addr   pipeAddr
	Cap    int
	nextID int64
}

// NewPipeListener returns a listener whose Dial creates in-memory pipes with
// the given per-direction capacity.
func NewPipeListener(addr string, capacity int) *PipeListener {
	return &PipeListener{ch: make(chan net.Conn, 1024), done: make(chan struct{}), addr: pipeAddr(addr), Cap: capacity}
}

func (l *PipeListener) Accept() (net.Conn, error) {
	select {
	case c := <-l.ch:
		return c, nil
	case <-l.done:
		return nil, net.ErrClosed
	}
}
func (l *PipeListener) Close() error   { l.once.Do(func() { close(l.done) }); return nil }
func (l *PipeListener) Addr() net.Addr { return l.addr }

// Dial returns the client end of a new connection to the listener.
func (l *PipeListener) Dial() (*PipeConn, error) {
	id := atomic.AddInt64(&l.nextID, 1)
	cl, sv := Pipe(l.Cap, "10.9.8.7:"+itoa(int(20000+id%40000)), string(l.addr))
	select {
	case <-l.done:
		return nil, errors.New("vh pipe listener closed")
	default:
	}
	select {
	case l.ch <- sv:
		return cl, nil
	case <-l.done:
		return nil, errors.New("vh pipe listener closed")
	}
}

func itoa(n int) string {
	if n == 0 {
		return "0"
	}
	var b [20]byte
	i := len(b)
	for n > 0 {
		i--
		b[i] = byte('0' + n%10)
		n /= 10
	}
	return string(b[i:])
}
