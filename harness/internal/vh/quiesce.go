package vh

import (
	"bufio"
	"bytes"
	"fmt"
	"runtime"
	"sort"
	"strings"
	"time"
)

// G is one goroutine of a runtime.Stack(all) dump, reduced.
type G struct {
	ID      string
	State   string   // "IO wait", "chan receive", "select", "running", ...
	Funcs   []string // function names, innermost first
	Created string   // creating function
}

// Has reports whether any frame (or the creator) contains sub.
func (g G) Has(sub string) bool {
	for _, f := range g.Funcs {
		if strings.Contains(f, sub) {
			return true
		}
	}
	return strings.Contains(g.Created, sub)
}

// HasFrame reports whether any frame (not the creator) contains sub.
func (g G) HasFrame(sub string) bool {
	for _, f := range g.Funcs {
		if strings.Contains(f, sub) {
			return true
		}
	}
	return false
}

func (g G) String() string {
	return fmt.Sprintf("[%s] %s <- %s", g.State, strings.Join(g.Funcs, " < "), g.Created)
}

// Blocked reports whether the goroutine is parked in a blocking state.
func (g G) Blocked() bool {
	s := g.State
	for _, p := range []string{"IO wait", "chan receive", "chan send", "select", "semacquire",
		"sync.Cond.Wait", "sleep", "sync.Mutex.Lock", "sync.RWMutex", "sync.WaitGroup.Wait", "GC ", "finalizer wait", "syscall"} {
		if strings.HasPrefix(s, p) {
			return true
		}
	}
	return false
}

// StackDump returns the full goroutine dump.
func StackDump() []byte {
	n := 1 << 20
	for {
		buf := make([]byte, n)
		m := runtime.Stack(buf, true)
		if m < n {
			return buf[:m]
		}
		n *= 2
	}
}

// Goroutines parses a full dump.
func Goroutines() []G {
	return ParseGoroutines(StackDump())
}

// ParseGoroutines parses the text of runtime.Stack(all).
func ParseGoroutines(dump []byte) []G {
	var gs []G
	var cur *G
	sc := bufio.NewScanner(bytes.NewReader(dump))
	sc.Buffer(make([]byte, 1<<20), 1<<26)
	for sc.Scan() {
		l := sc.Text()
		if strings.HasPrefix(l, "goroutine ") && strings.HasSuffix(l, "]:") {
			if cur != nil {
				gs = append(gs, *cur)
			}
			cur = &G{}
			rest := strings.TrimPrefix(l, "goroutine ")
			if i := strings.Index(rest, " ["); i >= 0 {
				cur.ID = rest[:i]
				st := strings.TrimSuffix(rest[i+2:], "]:")
				// strip ", N minutes" and ", locked to thread"
				if j := strings.Index(st, ","); j >= 0 {
					st = st[:j]
				}
				cur.State = st
			}
			continue
		}
		if cur == nil || l == "" || strings.HasPrefix(l, "\t") {
			continue
		}
		if strings.HasPrefix(l, "created by ") {
			c := strings.TrimPrefix(l, "created by ")
			if i := strings.Index(c, " in goroutine"); i >= 0 {
				c = c[:i]
			}
			cur.Created = c
			continue
		}
		// function line: pkg.fn(args)
		if i := strings.LastIndex(l, "("); i > 0 {
			l = l[:i]
		}
		cur.Funcs = append(cur.Funcs, l)
	}
	if cur != nil {
		gs = append(gs, *cur)
	}
	return gs
}

// MartianPkg is the import-path prefix identifying code under test.
const MartianPkg = "github.com/google/martian/v3"

// MartianGoroutines returns the goroutines with a martian frame or creator.
func MartianGoroutines() []G {
	var out []G
	for _, g := range Goroutines() {
		if g.Has(MartianPkg) {
			out = append(out, g)
		}
	}
	return out
}

// CountGoroutines counts goroutines having a frame containing sub.
func CountGoroutines(sub string) int {
	n := 0
	for _, g := range Goroutines() {
		if g.HasFrame(sub) {
			n++
		}
	}
	return n
}

// Fingerprint is a canonical description of the martian goroutines (states and
// stacks) plus caller-supplied activity counters.
func Fingerprint(activity func() string) (fp string, allBlocked bool) {
	gs := MartianGoroutines()
	lines := make([]string, 0, len(gs)+1)
	allBlocked = true
	for _, g := range gs {
		if !g.Blocked() {
			allBlocked = false
		}
		lines = append(lines, g.String())
	}
	sort.Strings(lines)
	if activity != nil {
		lines = append(lines, "activity:"+activity())
	}
	return strings.Join(lines, "\n"), allBlocked
}

// Outcome of a liveness wait.
type Outcome int

const (
	// Happened: the awaited condition became true.
	Happened Outcome = iota
	// Stuck: the condition is false and the system is quiescent: nothing
	// further will happen without new input. This is a liveness violation.
	Stuck
	// Undecided: watchdog fired while the system was still active.
	Undecided
)

func (o Outcome) String() string {
	return [...]string{"happened", "stuck", "undecided"}[o]
}

// AwaitOpts tunes Await. Zero values give the "declare a violation" window of
// DESIGN.md §1.3: grace 5 s, 6 identical samples over >= 3 s, watchdog 45 s.
type AwaitOpts struct {
	Grace    time.Duration
	Samples  int
	Interval time.Duration
	Watchdog time.Duration
	Activity func() string // byte counters / event-log length etc.
}

func (o *AwaitOpts) defaults() {
	if o.Grace == 0 {
		o.Grace = 5 * time.Second
	}
	if o.Samples == 0 {
		o.Samples = 6
	}
	if o.Interval == 0 {
		o.Interval = 600 * time.Millisecond
	}
	if o.Watchdog == 0 {
		o.Watchdog = 45 * time.Second
	}
}

// Await waits for cond. It returns Happened as soon as cond() is true. It
// returns Stuck (with the goroutine fingerprint as witness) only when cond is
// still false after the grace period and Samples consecutive identical
// fingerprints with every martian goroutine parked have been taken. The
// deciding step is "no progress is possible", never a deadline.
func Await(cond func() bool, o AwaitOpts) (Outcome, string) {
	o.defaults()
	start := time.Now()
	poll := 2 * time.Millisecond
	for time.Since(start) < o.Grace {
		if cond() {
			return Happened, ""
		}
		time.Sleep(poll)
		if poll < 50*time.Millisecond {
			poll *= 2
		}
	}
	same := 0
	last := ""
	for time.Since(start) < o.Watchdog {
		if cond() {
			return Happened, ""
		}
		fp, blocked := Fingerprint(o.Activity)
		if blocked && fp == last {
			same++
		} else {
			same = 1
			if !blocked {
				same = 0
			}
			last = fp
		}
		if same >= o.Samples {
			if cond() {
				return Happened, ""
			}
			return Stuck, fp
		}
		// sleep in small steps so that a late cond() is noticed quickly
		end := time.Now().Add(o.Interval)
		for time.Now().Before(end) {
			if cond() {
				return Happened, ""
			}
			time.Sleep(20 * time.Millisecond)
		}
	}
	if cond() {
		return Happened, ""
	}
	fp, _ := Fingerprint(o.Activity)
	return Undecided, fp
}

// Settle waits until the activity fingerprint has been identical for k
// samples spaced by interval (the short "nothing more happens" window). It
// returns false if the watchdog fires first.
func Settle(activity func() string, k int, interval, watchdog time.Duration) bool {
	start := time.Now()
	same := 0
	last := "\x00"
	for time.Since(start) < watchdog {
		fp, _ := Fingerprint(activity)
		if fp == last {
			same++
			if same >= k {
				return true
			}
		} else {
			same = 1
			last = fp
		}
		time.Sleep(interval)
	}
	return false
}

// WaitGone waits until no goroutine has a frame containing sub, deciding
// "still there" only at quiescence. Returns outcome and the fingerprint.
func WaitGone(sub string, o AwaitOpts) (Outcome, string) {
	return Await(func() bool { return CountGoroutines(sub) == 0 }, o)
}
