// Package shapex holds the structured description ("spec") of traffic-shaping
// configurations for property C18: the generator draws a spec, the wire JSON
// is rendered from it by this package, and the oracle's expectations come
// from the same spec — never from martian's own parsing.
package shapex

import (
	"encoding/json"
	"fmt"
	"math/rand"
	"sort"
)

// Throttle is a byte interval [Start, End) with a bandwidth in bytes/second.
// End == -1 means "to the end".
type Throttle struct {
	Start, End int64
	BW         int64
	Raw        string // if set, sent verbatim as the "bytes" string (malformed variants)
}

func (t Throttle) bytesStr() string {
	if t.Raw != "" {
		return t.Raw
	}
	if t.End < 0 {
		return fmt.Sprintf("%d-", t.Start)
	}
	return fmt.Sprintf("%d-%d", t.Start, t.End)
}

// Halt sleeps DurMs milliseconds when the absolute body offset Byte is reached; Count times in total (-1: always).
type Halt struct{ Byte, DurMs, Count int64 }

// Close closes the connection when the absolute body offset Byte is reached; Count times in total (-1: always).
type Close struct{ Byte, Count int64 }

// Shape is the shaping of the URLs matching Regex. Slot is the harness's URL
// family ("/s<Slot>/...") the regex was built to match.
type Shape struct {
	Slot      int
	Regex     string
	OmitRegex bool
	MaxBW     int64 // 0: not sent
	Throttles []Throttle
	Halts     []Halt
	Closes    []Close
	Null      bool // rendered as null
}

// Default is the "default" member.
type Default struct{ Up, Down, LatencyMs int64 }

// Config is one configuration request body.
type Config struct {
	Shapes  []Shape
	Default *Default
	// Class: "valid"; "invalid:<why>" for the classes the statement says are
	// rejected (overlapping or malformed throttles, negative values, invalid
	// pattern); "gray:<why>" for inputs on which the statement is silent.
	Class string
	Raw   string // verbatim body instead of the rendering (garbage)
	NoTS  bool   // omit the "trafficshape" member
}

// JSON renders the request body.
func (c *Config) JSON() string {
	if c.Raw != "" || c.Class == "gray:empty-body" {
		return c.Raw
	}
	ts := map[string]interface{}{}
	if c.Default != nil {
		ts["default"] = map[string]interface{}{
			"bandwidth": map[string]interface{}{"up": c.Default.Up, "down": c.Default.Down},
			"latency":   c.Default.LatencyMs,
		}
	}
	var shapes []interface{}
	for _, s := range c.Shapes {
		if s.Null {
			shapes = append(shapes, nil)
			continue
		}
		m := map[string]interface{}{}
		if !s.OmitRegex {
			m["url_regex"] = s.Regex
		}
		if s.MaxBW != 0 {
			m["max_global_bandwidth"] = s.MaxBW
		}
		if len(s.Throttles) > 0 {
			var ts []interface{}
			for _, t := range s.Throttles {
				ts = append(ts, map[string]interface{}{"bytes": t.bytesStr(), "bandwidth": t.BW})
			}
			m["throttles"] = ts
		}
		if len(s.Halts) > 0 {
			var hs []interface{}
			for _, h := range s.Halts {
				hs = append(hs, map[string]interface{}{"byte": h.Byte, "duration": h.DurMs, "count": h.Count})
			}
			m["halts"] = hs
		}
		if len(s.Closes) > 0 {
			var cs []interface{}
			for _, x := range s.Closes {
				cs = append(cs, map[string]interface{}{"byte": x.Byte, "count": x.Count})
			}
			m["close_connections"] = cs
		}
		shapes = append(shapes, m)
	}
	if shapes != nil {
		ts["shapes"] = shapes
	}
	top := map[string]interface{}{"trafficshape": ts}
	if c.NoTS {
		top = map[string]interface{}{"shapes": shapes}
	}
	b, _ := json.Marshal(top)
	return string(b)
}

// ShapeFor returns the shape of a slot, or nil.
func (c *Config) ShapeFor(slot int) *Shape {
	if c == nil {
		return nil
	}
	for i := range c.Shapes {
		if c.Shapes[i].Slot == slot && !c.Shapes[i].Null {
			return &c.Shapes[i]
		}
	}
	return nil
}

// Kinds names the action kinds of a shape ("H+C+T", "none").
func (s *Shape) Kinds() string {
	if s == nil {
		return "nonmatching"
	}
	k := ""
	add := func(x string) {
		if k != "" {
			k += "+"
		}
		k += x
	}
	if len(s.Halts) > 0 {
		add("H")
	}
	if len(s.Closes) > 0 {
		add("C")
	}
	if len(s.Throttles) > 0 {
		add("T")
	}
	if s.MaxBW != 0 {
		add("G")
	}
	if k == "" {
		return "none"
	}
	return k
}

// RegexFor returns one of several regexes matching exactly the URLs of a slot
// (http://origin.test/s<slot>/r<id>?...); regexes of different slots are
// disjoint.
func RegexFor(rng *rand.Rand, slot int) string {
	switch rng.Intn(5) {
	case 0:
		return fmt.Sprintf("/s%d/", slot)
	case 1:
		return fmt.Sprintf(`^http://origin\.test/s%d/.*`, slot)
	case 2:
		return fmt.Sprintf(`origin.test/s%d/r\d+`, slot)
	case 3:
		return fmt.Sprintf(`/s[%d]/r`, slot)
	}
	return fmt.Sprintf(`http://origin\.test/s%d/`, slot)
}

// GenOpts steers GenValid.
type GenOpts struct {
	Gen      int     // generation: every action offset is ≡ Gen (mod 4), so that the offsets of successive configurations are disjoint
	Slots    []int   // slots to shape
	Res      []int64 // resource size per slot (index = slot)
	Halts    bool
	MaxHalt  int64 // ms
	Closes   bool
	Throttle string // "none" | "loose"
	Global   bool   // allow max_global_bandwidth / default bandwidth / latency
	CloseAll bool   // every shape gets an always-close action (reconfiguration probes)
}

func alignTo(k int64, gen int) int64 {
	k = k - k%4 + int64(gen%4)
	if k < 0 {
		k = int64(gen % 4)
	}
	return k
}

// offset draws an action offset for a resource of n bytes.
func offset(rng *rand.Rand, n int64, gen int) int64 {
	var k int64
	switch rng.Intn(10) {
	case 0:
		k = 0
	case 1:
		k = n // at the very end
	case 2:
		k = n - 1
	case 3:
		k = 4096 * int64(1+rng.Intn(3)) // around the proxy's write-buffer boundaries
	case 4:
		k = 4096*int64(1+rng.Intn(3)) - int64(rng.Intn(400))
	case 5:
		k = n + int64(rng.Intn(100)) + 1 // beyond the resource: never reached
	default:
		if n > 0 {
			k = rng.Int63n(n + 1)
		}
	}
	return alignTo(k, gen)
}

const looseBW = 64 << 20 // 64 MiB/s: never the bottleneck for the sizes used

// GenValid draws a valid configuration.
func GenValid(rng *rand.Rand, o GenOpts) *Config {
	c := &Config{Class: "valid"}
	for _, slot := range o.Slots {
		n := o.Res[slot]
		s := Shape{Slot: slot, Regex: RegexFor(rng, slot)}
		if o.Halts {
			for i, k := 0, rng.Intn(3); i < k; i++ {
				d := int64(20 + rng.Intn(int(o.MaxHalt)))
				s.Halts = append(s.Halts, Halt{Byte: offset(rng, n, o.Gen), DurMs: d, Count: []int64{1, 1, 2, -1}[rng.Intn(4)]})
			}
		}
		if o.Closes {
			for i, k := 0, rng.Intn(3); i < k; i++ {
				s.Closes = append(s.Closes, Close{Byte: offset(rng, n, o.Gen), Count: []int64{1, 1, 2, 3, -1}[rng.Intn(5)]})
			}
		}
		if o.CloseAll {
			k := alignTo(n/2, o.Gen)
			s.Closes = append(s.Closes, Close{Byte: k, Count: -1})
		}
		if o.Throttle == "loose" && rng.Intn(2) == 0 {
			// 1-3 disjoint intervals, possibly adjacent, the last possibly open
			k := 1 + rng.Intn(3)
			cuts := make([]int64, 2*k)
			for i := range cuts {
				cuts[i] = rng.Int63n(n + 2)
			}
			sort.Slice(cuts, func(i, j int) bool { return cuts[i] < cuts[j] })
			for i := 1; i < len(cuts); i++ { // strictly increasing
				if cuts[i] <= cuts[i-1] {
					cuts[i] = cuts[i-1] + 1 + int64(rng.Intn(20))
				}
			}
			for i := 0; i < k; i++ {
				t := Throttle{Start: cuts[2*i], End: cuts[2*i+1], BW: looseBW + int64(rng.Intn(1000))}
				if i+1 < k && rng.Intn(4) == 0 {
					t.End = cuts[2*i+2] // adjacent to the next one
				}
				if i == k-1 && rng.Intn(3) == 0 {
					t.End = -1
				}
				s.Throttles = append(s.Throttles, t)
			}
			// present them in a shuffled order: the handler sorts
			rng.Shuffle(len(s.Throttles), func(i, j int) { s.Throttles[i], s.Throttles[j] = s.Throttles[j], s.Throttles[i] })
		}
		if o.Global && rng.Intn(3) == 0 {
			s.MaxBW = looseBW * 2
		}
		c.Shapes = append(c.Shapes, s)
	}
	if o.Global && rng.Intn(2) == 0 {
		d := &Default{}
		if rng.Intn(2) == 0 {
			d.Up, d.Down = looseBW*4, looseBW*4
		}
		if rng.Intn(2) == 0 {
			d.LatencyMs = int64(rng.Intn(40))
		}
		c.Default = d
	}
	return c
}

// InvalidClasses are the classes the statement says are rejected; GrayClasses
// the ones it is silent about.
var InvalidClasses = []string{
	"invalid:overlap", "invalid:overlap-open", "invalid:overlap-identical",
	"invalid:malformed-throttle",
	"invalid:negative-throttle-bw", "invalid:negative-halt-duration", "invalid:negative-halt-byte", "invalid:negative-close-byte",
	"invalid:negative-max-bw", "invalid:negative-default-up", "invalid:negative-default-down", "invalid:negative-latency",
	"invalid:bad-regex",
}
var GrayClasses = []string{
	"gray:zero-count-halt", "gray:zero-count-close", "gray:zero-bandwidth", "gray:missing-regex", "gray:missing-trafficshape",
	"gray:not-json", "gray:empty-body", "gray:null-shape", "gray:negative-count",
}

func clone(c *Config) *Config {
	n := *c
	n.Shapes = nil
	for _, s := range c.Shapes {
		s2 := s
		s2.Throttles = append([]Throttle(nil), s.Throttles...)
		s2.Halts = append([]Halt(nil), s.Halts...)
		s2.Closes = append([]Close(nil), s.Closes...)
		n.Shapes = append(n.Shapes, s2)
	}
	if c.Default != nil {
		d := *c.Default
		n.Default = &d
	}
	return &n
}

// Spoil turns a valid configuration (with at least one shape) into one of the
// given class by a single localised change; everything else stays valid, so a
// handler that skipped the check would apply a perfectly usable configuration.
func Spoil(rng *rand.Rand, base *Config, class string) *Config {
	c := clone(base)
	c.Class = class
	if len(c.Shapes) == 0 {
		c.Shapes = []Shape{{Slot: 0, Regex: RegexFor(rng, 0)}}
	}
	si := rng.Intn(len(c.Shapes))
	s := &c.Shapes[si]
	// Every spoiled configuration carries a valid default section that differs
	// from anything the valid generators produce: a handler that installs the
	// defaults before it has verified the whole request changes the listener
	// although it answers 400. (The classes below that spoil the default
	// section itself overwrite it.)
	c.Default = &Default{Up: 3000017 + int64(rng.Intn(1000)), Down: 2000003 + int64(rng.Intn(1000)), LatencyMs: 7 + int64(rng.Intn(20))}
	switch class {
	case "invalid:overlap":
		s.Throttles = []Throttle{{Start: 0, End: 1000, BW: looseBW}, {Start: 500, End: 1500, BW: looseBW}}
		if rng.Intn(2) == 0 {
			s.Throttles[0], s.Throttles[1] = s.Throttles[1], s.Throttles[0]
		}
		if rng.Intn(2) == 0 {
			s.Throttles = append(s.Throttles, Throttle{Start: 2000, End: 3000, BW: looseBW})
		}
	case "invalid:overlap-open":
		s.Throttles = []Throttle{{Start: 10, End: -1, BW: looseBW}, {Start: 5000, End: 6000, BW: looseBW}}
	case "invalid:overlap-identical":
		s.Throttles = []Throttle{{Start: 100, End: 200, BW: looseBW}, {Start: 100, End: 200, BW: looseBW}}
	case "invalid:malformed-throttle":
		raw := []string{"abc", "1-2-3", "10-5", "7-7", "0x10-0x20", "5–9", "a-b", "12", "1.5-9", " 1-9"}[rng.Intn(10)]
		s.Throttles = []Throttle{{Raw: raw, BW: looseBW}}
	case "invalid:negative-throttle-bw":
		s.Throttles = []Throttle{{Start: 0, End: 100, BW: -int64(1 + rng.Intn(1000))}}
	case "invalid:negative-halt-duration":
		s.Halts = append(s.Halts, Halt{Byte: 10, DurMs: -int64(1 + rng.Intn(100)), Count: 1})
	case "invalid:negative-halt-byte":
		s.Halts = append(s.Halts, Halt{Byte: -int64(1 + rng.Intn(100)), DurMs: 10, Count: 1})
	case "invalid:negative-close-byte":
		s.Closes = append(s.Closes, Close{Byte: -int64(1 + rng.Intn(100)), Count: 1})
	case "invalid:negative-max-bw":
		s.MaxBW = -int64(1 + rng.Intn(1000))
	case "invalid:negative-default-up":
		c.Default = &Default{Up: -5}
	case "invalid:negative-default-down":
		c.Default = &Default{Down: -5}
	case "invalid:negative-latency":
		c.Default = &Default{LatencyMs: -1}
	case "invalid:bad-regex":
		s.Regex = []string{"(", "[a-", "*abc", "(?P<n>", `\`, "a{2,1}"}[rng.Intn(6)]
	case "gray:zero-count-halt":
		s.Halts = append(s.Halts, Halt{Byte: 10, DurMs: 10, Count: 0})
	case "gray:zero-count-close":
		s.Closes = append(s.Closes, Close{Byte: 10, Count: 0})
	case "gray:zero-bandwidth":
		s.Throttles = []Throttle{{Start: 0, End: 100, BW: 0}}
	case "gray:missing-regex":
		s.OmitRegex = true
	case "gray:missing-trafficshape":
		c.NoTS = true
	case "gray:not-json":
		c.Raw = []string{"{", "trafficshape", `{"trafficshape": [1,2]}`, `{"trafficshape": {"shapes": {"a":1}}}`, "\x00\x01"}[rng.Intn(5)]
	case "gray:empty-body":
		c.Raw = ""
	case "gray:null-shape":
		c.Shapes = append(c.Shapes, Shape{Null: true})
	case "gray:negative-count":
		s.Closes = append(s.Closes, Close{Byte: 10, Count: -7})
	}
	return c
}
