// Package rangex is the reference side of property C20: a strict evaluator of
// Range header values (RFC 7233 semantics as restated by the property), the
// decision of which outcomes are required / allowed for a given header and
// content size, and the checker that compares an observed response with that
// expectation. Nothing here calls the code under test.
package rangex

import (
	"bytes"
	"fmt"
	"io"
	"math/big"
	"mime"
	"mime/multipart"
	"net/http"
	"regexp"
	"strconv"
	"strings"
)

// Range is an inclusive, already clamped byte range of the content.
type Range struct{ A, B int64 }

func (r Range) Len() int64 { return r.B - r.A + 1 }

// Expect is the verdict of the reference evaluator for one (header, size).
type Expect struct {
	// Class is the fine-grained input class (coverage); Group the coarse one
	// used in signatures: none, in-bounds, suffix, beyond-end, malformed, gray.
	Class string
	Group string
	// Allowed outcomes. Exactly one of them being set makes it required.
	Allow206  bool
	Allow416  bool
	AllowFull bool
	// Ranges is what a 206 must carry: one entry per satisfiable requested
	// range, in request order, last positions clamped to size-1.
	Ranges []Range
	// Requested is the number of range specs in the header (valid headers).
	Requested int
}

func (e Expect) String() string {
	var a []string
	if e.AllowFull {
		a = append(a, "full")
	}
	if e.Allow206 {
		a = append(a, fmt.Sprintf("206%v", e.Ranges))
	}
	if e.Allow416 {
		a = append(a, "416")
	}
	return e.Class + " => " + strings.Join(a, "|")
}

func isOWS(c byte) bool { return c == ' ' || c == '\t' }

func trimOWS(s string) string {
	for len(s) > 0 && isOWS(s[0]) {
		s = s[1:]
	}
	for len(s) > 0 && isOWS(s[len(s)-1]) {
		s = s[:len(s)-1]
	}
	return s
}

func allDigits(s string) bool {
	if s == "" {
		return false
	}
	for i := 0; i < len(s); i++ {
		if s[i] < '0' || s[i] > '9' {
			return false
		}
	}
	return true
}

type spec struct {
	suffix      bool
	first, last *big.Int // last nil: open ended; suffix: first = suffix length
}

// parseSpec parses one byte-range-spec / suffix-byte-range-spec strictly.
func parseSpec(el string) (spec, bool) {
	if strings.HasPrefix(el, "-") {
		d := el[1:]
		if !allDigits(d) {
			return spec{}, false
		}
		n, _ := new(big.Int).SetString(d, 10)
		return spec{suffix: true, first: n}, true
	}
	i := strings.IndexByte(el, '-')
	if i <= 0 {
		return spec{}, false
	}
	f, l := el[:i], el[i+1:]
	if !allDigits(f) {
		return spec{}, false
	}
	fn, _ := new(big.Int).SetString(f, 10)
	if l == "" {
		return spec{first: fn}, true
	}
	if !allDigits(l) {
		return spec{}, false
	}
	ln, _ := new(big.Int).SetString(l, 10)
	return spec{first: fn, last: ln}, true
}

// ManyRanges: a header with more range specs than this may also be answered
// with the full content.
const ManyRanges = 16

var hugeMark = new(big.Int).Lsh(big.NewInt(1), 26) // numbers from here on are "huge" (allocation-prone)

// HasHuge reports whether the header contains a decimal number >= 2^26. Such
// inputs make the pinned static.Modifier allocate a buffer of that size, so
// they are run only in expendable child processes.
func HasHuge(h string) bool {
	i := 0
	for i < len(h) {
		if h[i] < '0' || h[i] > '9' {
			i++
			continue
		}
		j := i
		for j < len(h) && h[j] >= '0' && h[j] <= '9' {
			j++
		}
		n, _ := new(big.Int).SetString(h[i:j], 10)
		if n.Cmp(hugeMark) >= 0 {
			return true
		}
		i = j
	}
	return false
}

// Evaluate decides the outcomes the property admits for header value h
// (as a recipient sees it, i.e. without surrounding optional whitespace) on
// content of the given size. present=false means no Range header at all.
//
// Required vs allowed (DESIGN.md C20): syntactically valid and every range
// satisfiable => 206 with exactly those ranges; valid and no range satisfiable
// => 416; valid with both kinds => 206 with the satisfiable ones, or 416;
// malformed => full content or 416; forms on which RFC 7233/7230 themselves
// are lenient or ambiguous ("gray": unit in another case, whitespace inside a
// spec or before the first element, empty list elements, suffix length 0,
// suffix range of empty content) => anything the valid reading admits, or
// full content, or 416.
func Evaluate(h string, present bool, size int64) Expect {
	if !present {
		return Expect{Class: "none", Group: "none", AllowFull: true}
	}
	h = trimOWS(h)
	if h == "" {
		return Expect{Class: "gray:empty-value", Group: "gray", AllowFull: true, Allow416: true}
	}
	malformed := func(why string) Expect {
		return Expect{Class: "malformed:" + why, Group: "malformed", AllowFull: true, Allow416: true}
	}
	eq := strings.IndexByte(h, '=')
	if eq < 0 {
		return malformed("no-equals")
	}
	var gray []string
	unit := h[:eq]
	if unit != "bytes" {
		if strings.EqualFold(unit, "bytes") {
			gray = append(gray, "unit-case")
		} else {
			return malformed("unit")
		}
	}
	set := h[eq+1:]
	if set != "" && isOWS(set[0]) {
		gray = append(gray, "leading-ws")
	}
	var specs []spec
	for _, el := range strings.Split(set, ",") {
		el = trimOWS(el)
		if el == "" {
			gray = append(gray, "empty-element")
			continue
		}
		sp, ok := parseSpec(el)
		if !ok {
			// whitespace inside the spec?
			squeezed := strings.Map(func(r rune) rune {
				if r == ' ' || r == '\t' {
					return -1
				}
				return r
			}, el)
			if squeezed != el {
				if sp2, ok2 := parseSpec(squeezed); ok2 {
					gray = append(gray, "inner-ws")
					sp, ok = sp2, true
				}
			}
		}
		if !ok {
			return malformed("spec")
		}
		if !sp.suffix && sp.last != nil && sp.first.Cmp(sp.last) > 0 {
			return malformed("reversed")
		}
		specs = append(specs, sp)
	}
	if len(specs) == 0 {
		return malformed("empty-set")
	}

	// resolve against size
	bsize := big.NewInt(size)
	var ranges []Range
	feature := "in-bounds"
	rank := map[string]int{"in-bounds": 0, "open": 1, "suffix": 2, "first>=size": 3, "last>=size": 4, "huge": 5}
	bump := func(f string) {
		if rank[f] > rank[feature] {
			feature = f
		}
	}
	nsat := 0
	for _, sp := range specs {
		if sp.suffix {
			bump("suffix")
			if sp.first.Sign() == 0 {
				gray = append(gray, "suffix-zero")
				continue
			}
			if size == 0 {
				gray = append(gray, "suffix-of-empty")
				continue
			}
			if sp.first.Cmp(hugeMark) >= 0 {
				bump("huge")
			}
			a := int64(0)
			if sp.first.Cmp(bsize) < 0 {
				a = size - sp.first.Int64()
			}
			ranges = append(ranges, Range{a, size - 1})
			nsat++
			continue
		}
		if sp.first.Cmp(hugeMark) >= 0 || (sp.last != nil && sp.last.Cmp(hugeMark) >= 0) {
			bump("huge")
		}
		if sp.first.Cmp(bsize) >= 0 {
			bump("first>=size")
			continue
		}
		a := sp.first.Int64()
		b := size - 1
		if sp.last == nil {
			bump("open")
		} else if sp.last.Cmp(bsize) >= 0 {
			bump("last>=size")
		} else {
			b = sp.last.Int64()
		}
		ranges = append(ranges, Range{a, b})
		nsat++
	}
	e := Expect{Ranges: ranges, Requested: len(specs)}
	switch {
	case nsat == len(specs):
		e.Allow206 = true
	case nsat == 0:
		e.Allow416 = true
	default:
		e.Allow206, e.Allow416 = true, true
	}
	e.Class = feature
	if len(specs) > 1 {
		e.Class = "multi:" + feature
		if nsat != 0 && nsat != len(specs) {
			e.Class = "multi-mixed:" + feature
		}
	}
	switch feature {
	case "in-bounds", "open":
		e.Group = "in-bounds"
	case "suffix":
		e.Group = "suffix"
	default:
		e.Group = "beyond-end"
	}
	if len(specs) > ManyRanges {
		// RFC 7233 section 6.1 lets a server ignore a Range header made of many
		// small ranges; the statement admits the full content anyway
		e.Class = "many:" + e.Class
		e.AllowFull = true
	}
	if len(gray) > 0 {
		e.Class = "gray:" + gray[0] + ":" + e.Class
		e.Group = "gray"
		e.AllowFull, e.Allow416 = true, true
	}
	return e
}

// Observed is what the harness saw after the modifier ran (or on the wire).
type Observed struct {
	Status        int
	Header        http.Header
	ContentLength int64  // res.ContentLength / Content-Length on the wire
	Body          []byte // bytes read (bounded by the harness)
	BodyErr       string // error while reading the body ("" if clean EOF)
	TooLong       bool   // body exceeded the harness read bound
	RetErr        string // error returned by ModifyResponse ("" if nil)
}

var crRe = regexp.MustCompile(`^bytes (\d+)-(\d+)/(\d+)$`)

func parseContentRange(v string) (a, b, n int64, ok bool) {
	m := crRe.FindStringSubmatch(v)
	if m == nil {
		return
	}
	var err error
	if a, err = strconv.ParseInt(m[1], 10, 64); err != nil {
		return
	}
	if b, err = strconv.ParseInt(m[2], 10, 64); err != nil {
		return
	}
	if n, err = strconv.ParseInt(m[3], 10, 64); err != nil {
		return
	}
	return a, b, n, true
}

func localise(got, want []byte) string {
	n := len(got)
	if len(want) < n {
		n = len(want)
	}
	for i := 0; i < n; i++ {
		if got[i] != want[i] {
			return fmt.Sprintf("first difference at body offset %d (got 0x%02x want 0x%02x), got %d bytes want %d", i, got[i], want[i], len(got), len(want))
		}
	}
	return fmt.Sprintf("got %d bytes want %d (common prefix equal)", len(got), len(want))
}

// Check compares an observed response with the expectation. It returns the
// violated clause ("" if the response is an admitted outcome), a description,
// and the outcome kind observed ("full", "206", "206-multipart", "416").
//
//	outcome          the kind of answer is not one the property admits here
//	range-206        a 206 whose ranges / Content-Range / Content-Length / parts are wrong
//	broken-response  neither 206 nor 416 and not the full content with a matching length
//	                 (unreadable body, wrong length, foreign bytes)
func Check(e Expect, content []byte, origStatus int, o Observed) (clause, what, kind string) {
	size := int64(len(content))
	switch o.Status {
	case http.StatusRequestedRangeNotSatisfiable:
		if !e.Allow416 {
			return "outcome", fmt.Sprintf("416 answered but the header is %s (expected %s)", e.Class, e), "416"
		}
		return "", "", "416"
	case http.StatusPartialContent:
		kind = "206"
		if !e.Allow206 {
			return "outcome", fmt.Sprintf("206 answered but expected %s", e), kind
		}
		if o.BodyErr != "" {
			return "range-206", "206 body unreadable: " + o.BodyErr, kind
		}
		if o.TooLong {
			return "range-206", "206 body longer than the harness bound", kind
		}
		if o.ContentLength != int64(len(o.Body)) {
			return "range-206", fmt.Sprintf("206 Content-Length %d but body has %d bytes", o.ContentLength, len(o.Body)), kind
		}
		ct := o.Header.Get("Content-Type")
		mt, params, _ := mime.ParseMediaType(ct)
		if strings.HasPrefix(strings.ToLower(mt), "multipart/") {
			kind = "206-multipart"
			if mt != "multipart/byteranges" {
				return "range-206", "multipart 206 with media type " + mt, kind
			}
			if e.Requested < 2 {
				return "range-206", "multipart 206 for a single-range request", kind
			}
			mr := multipart.NewReader(bytes.NewReader(o.Body), params["boundary"])
			i := 0
			for {
				p, err := mr.NextRawPart()
				if err == io.EOF {
					break
				}
				if err != nil {
					return "range-206", fmt.Sprintf("multipart body does not parse after %d parts: %v", i, err), kind
				}
				data, err := io.ReadAll(p)
				if err != nil {
					return "range-206", fmt.Sprintf("multipart part %d unreadable: %v", i, err), kind
				}
				if i >= len(e.Ranges) {
					return "range-206", fmt.Sprintf("more multipart parts than requested satisfiable ranges (%d)", len(e.Ranges)), kind
				}
				w := e.Ranges[i]
				a, b, n, ok := parseContentRange(p.Header.Get("Content-Range"))
				if !ok {
					return "range-206", fmt.Sprintf("part %d Content-Range %q unparsable", i, p.Header.Get("Content-Range")), kind
				}
				if a != w.A || b != w.B || n != size {
					return "range-206", fmt.Sprintf("part %d Content-Range %q, want bytes %d-%d/%d", i, p.Header.Get("Content-Range"), w.A, w.B, size), kind
				}
				if !bytes.Equal(data, content[w.A:w.B+1]) {
					return "range-206", fmt.Sprintf("part %d (bytes %d-%d) body differs from the content: %s", i, w.A, w.B, localise(data, content[w.A:w.B+1])), kind
				}
				i++
			}
			if i != len(e.Ranges) {
				return "range-206", fmt.Sprintf("%d multipart parts for %d requested satisfiable ranges", i, len(e.Ranges)), kind
			}
			return "", "", kind
		}
		if len(e.Ranges) != 1 {
			return "range-206", fmt.Sprintf("single-part 206 (Content-Type %q) for %d requested ranges", ct, len(e.Ranges)), kind
		}
		w := e.Ranges[0]
		a, b, n, ok := parseContentRange(o.Header.Get("Content-Range"))
		if !ok {
			return "range-206", fmt.Sprintf("Content-Range %q unparsable", o.Header.Get("Content-Range")), kind
		}
		if a != w.A || b != w.B || n != size {
			return "range-206", fmt.Sprintf("Content-Range %q, want bytes %d-%d/%d", o.Header.Get("Content-Range"), w.A, w.B, size), kind
		}
		if !bytes.Equal(o.Body, content[w.A:w.B+1]) {
			return "range-206", fmt.Sprintf("206 body differs from content[%d..%d]: %s", w.A, w.B, localise(o.Body, content[w.A:w.B+1])), kind
		}
		return "", "", kind
	}
	// anything else must be the full content
	kind = "full"
	if o.BodyErr != "" {
		return "broken-response", fmt.Sprintf("status %d, body unreadable: %s (modifier returned error %q)", o.Status, o.BodyErr, o.RetErr), kind
	}
	if o.TooLong || !bytes.Equal(o.Body, content) {
		return "broken-response", fmt.Sprintf("status %d, body is not the content: %s (modifier returned error %q)", o.Status, localise(o.Body, content), o.RetErr), kind
	}
	if o.ContentLength != size {
		return "broken-response", fmt.Sprintf("full content (%d bytes) with Content-Length %d", size, o.ContentLength), kind
	}
	if o.Status != origStatus {
		return "broken-response", fmt.Sprintf("full content with status %d (was %d)", o.Status, origStatus), kind
	}
	if !e.AllowFull {
		return "outcome", fmt.Sprintf("full content answered (status %d) but expected %s", o.Status, e), kind
	}
	return "", "", kind
}
