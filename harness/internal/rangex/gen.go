package rangex

import (
	"fmt"
	"math/rand"
	"strings"
)

// Gen draws one Range header value for content of the given size from a
// grammar plus mutators. kind names the production used (coverage label of
// the generator; the oracle's class comes from Evaluate). present=false means
// "send no Range header". allowHuge=false keeps every number below 2^26.
func Gen(rng *rand.Rand, size int64, allowHuge bool) (h string, present bool, kind string) {
	h, present, kind = gen(rng, size, allowHuge)
	// positions are 1*DIGIT: leading zeros are legitimate and do not change the
	// value, however long the digit string becomes (1 header in 10)
	if present && rng.Intn(10) == 0 && strings.HasPrefix(h, "bytes=") {
		var sb strings.Builder
		i := 0
		for i < len(h) {
			if h[i] < '0' || h[i] > '9' {
				sb.WriteByte(h[i])
				i++
				continue
			}
			j := i
			for j < len(h) && h[j] >= '0' && h[j] <= '9' {
				j++
			}
			if rng.Intn(3) != 0 {
				sb.WriteString(strings.Repeat("0", []int{1, 2, 5, 18, 19, 20, 21, 30, 64}[rng.Intn(9)]))
			}
			sb.WriteString(h[i:j])
			i = j
		}
		return sb.String(), present, kind + "+leading-zeros"
	}
	return h, present, kind
}

func gen(rng *rand.Rand, size int64, allowHuge bool) (h string, present bool, kind string) {
	n := size
	in := func() int64 { // a position inside the content (0 if empty)
		if n <= 0 {
			return 0
		}
		switch rng.Intn(5) {
		case 0:
			return 0
		case 1:
			return n - 1
		}
		return rng.Int63n(n)
	}
	over := func() int64 { // how far beyond the end
		switch rng.Intn(6) {
		case 0:
			return 0
		case 1:
			return 1
		case 2:
			return 2
		case 3:
			return rng.Int63n(300) + 1
		}
		return rng.Int63n(70000) + 1
	}
	huge := func() string {
		if !allowHuge {
			return fmt.Sprint(n + over())
		}
		c := []string{
			"67108864", "134217727", "2147483647", "2147483648", "4294967295", "4294967296",
			"9007199254740993", "99999999999999", "9223372036854775807", "9223372036854775808",
			"18446744073709551615", "18446744073709551616", "100000000000000000000000000000",
			"1000000000", "3000000000", "68719476736",
		}
		return c[rng.Intn(len(c))]
	}
	single := func() (string, string) {
		switch x := rng.Intn(100); {
		case x < 30: // in bounds
			a := in()
			b := in()
			if a > b {
				a, b = b, a
			}
			return fmt.Sprintf("%d-%d", a, b), "in-bounds"
		case x < 36:
			a := in()
			return fmt.Sprintf("%d-%d", a, a), "one-byte"
		case x < 40:
			if n == 0 {
				return "0-0", "whole"
			}
			return fmt.Sprintf("0-%d", n-1), "whole"
		case x < 50:
			return fmt.Sprintf("%d-", in()), "open"
		case x < 60: // suffix
			switch rng.Intn(4) {
			case 0:
				return "-1", "suffix"
			case 1:
				return fmt.Sprintf("-%d", n), "suffix-all"
			case 2:
				return fmt.Sprintf("-%d", n+over()), "suffix-over"
			}
			if n > 0 {
				return fmt.Sprintf("-%d", rng.Int63n(n)+1), "suffix"
			}
			return "-3", "suffix"
		case x < 75: // last >= size
			return fmt.Sprintf("%d-%d", in(), n+over()), "last>=size"
		case x < 83: // first >= size
			a := n + over()
			if rng.Intn(2) == 0 {
				return fmt.Sprintf("%d-", a), "first>=size-open"
			}
			return fmt.Sprintf("%d-%d", a, a+rng.Int63n(50)), "first>=size"
		case x < 88: // reversed
			a, b := in(), in()
			if a == b {
				b = a + 1
			}
			if a < b {
				a, b = b, a
			}
			return fmt.Sprintf("%d-%d", a, b), "reversed"
		case x < 91:
			return "-0", "suffix-zero"
		case x < 96:
			switch rng.Intn(3) {
			case 0:
				return fmt.Sprintf("%d-%s", in(), huge()), "huge-last"
			case 1:
				return fmt.Sprintf("%s-", huge()), "huge-first"
			}
			return fmt.Sprintf("-%s", huge()), "huge-suffix"
		default:
			h1 := huge()
			return fmt.Sprintf("%s-%s", h1, h1), "huge-both"
		}
	}
	sep := func() string {
		switch rng.Intn(6) {
		case 0:
			return ", "
		case 1:
			return " ,"
		case 2:
			return ",\t"
		case 3:
			return " , "
		}
		return ","
	}
	switch x := rng.Intn(100); {
	case x < 4:
		return "", false, "none"
	case x < 50:
		s, k := single()
		return "bytes=" + s, true, k
	case x < 70: // multiple
		k := 2 + rng.Intn(5)
		var parts []string
		var kinds []string
		for i := 0; i < k; i++ {
			s, kk := single()
			parts = append(parts, s)
			kinds = append(kinds, kk)
		}
		if rng.Intn(5) == 0 { // duplicate a range
			parts = append(parts, parts[0])
		}
		var sb strings.Builder
		sb.WriteString("bytes=")
		for i, p := range parts {
			if i > 0 {
				sb.WriteString(sep())
			}
			sb.WriteString(p)
		}
		return sb.String(), true, "multi"
	case x < 72: // a great many small ranges (17..120), all of them satisfiable when the content is not empty
		k := 17 + rng.Intn(104)
		var sb strings.Builder
		sb.WriteString("bytes=")
		for i := 0; i < k; i++ {
			if i > 0 {
				sb.WriteString(sep())
			}
			a := in()
			b := a + rng.Int63n(64)
			switch {
			case rng.Intn(40) == 0:
				fmt.Fprintf(&sb, "%d-", a)
			case b >= n && n > 0:
				fmt.Fprintf(&sb, "%d-%d", a, n-1)
			default:
				fmt.Fprintf(&sb, "%d-%d", a, b)
			}
		}
		return sb.String(), true, "many"
	case x < 80: // whitespace / case variants of a valid header
		s, _ := single()
		switch rng.Intn(7) {
		case 0:
			return "bytes= " + s, true, "ws-after-equals"
		case 1:
			return "Bytes=" + s, true, "unit-case"
		case 2:
			return "BYTES=" + s, true, "unit-case"
		case 3:
			return "bytes=" + strings.Replace(s, "-", " - ", 1), true, "ws-inside"
		case 4:
			return "bytes=" + s + ",", true, "trailing-comma"
		case 5:
			return "bytes=," + s, true, "leading-comma"
		}
		return "  bytes=" + s + " \t", true, "outer-ws"
	case x < 90: // wrong unit / structure
		s, _ := single()
		c := []string{
			"items=" + s, "byte=" + s, "bytes:" + s, "bytes " + s, s, "=" + s, "bytes==" + s,
			"bytes=", "bytes=-", "bytes=--5", "bytes=5--", "bytes=1-2-3", "bytes=a-b", "bytes=0x1-0x5",
			"bytes=+1-5", "bytes=1-+5", "bytes=1.5-3", "bytes=1-5;q=1", "bytes=1e1-", "bytes=0-9,x", "bytes=0-1,2",
			"yes=" + s, "setbytes=" + s, "b=" + s, "bytes=" + s + "-", "bytes=٣-٥", "bytes=1_0-2_0",
			"bytes=0-4 5-9", "bytes=0-4;5-9", "bytes=*", "bytes=0-*", "none", "bytes", "bytes=,", "bytes= ",
			"bytes bytes=" + s, "bytes=" + s + "/10", "bytes=-" + "-" + s,
		}
		return c[rng.Intn(len(c))], true, "structure"
	default: // garbage: random printable bytes, sometimes seeded with range-like pieces
		l := 1 + rng.Intn(24)
		const alpha = "bytes=-,0123456789 \tBYTES;:/*.+xe"
		b := make([]byte, l)
		for i := range b {
			if rng.Intn(8) == 0 {
				b[i] = byte(0x21 + rng.Intn(0x5e))
			} else {
				b[i] = alpha[rng.Intn(len(alpha))]
			}
		}
		s := string(b)
		if rng.Intn(2) == 0 {
			s = "bytes=" + s
		}
		if !allowHuge && HasHuge(s) {
			s = "bytes=junk"
		}
		return s, true, "garbage"
	}
}
