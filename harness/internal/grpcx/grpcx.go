// Package grpcx holds the harness-side (independent of martian) gRPC wire
// helpers used by the C11 check: deterministic payloads, the per-encoding
// compressors/decompressors, the length-prefixed message renderer and the
// deframer.
package grpcx

import (
	"bytes"
	"compress/flate"
	"compress/gzip"
	"encoding/binary"
	"fmt"
	"hash/crc32"
	"io"

	"github.com/golang/snappy"
)

// Msg is one gRPC message of a generating spec.
type Msg struct {
	Size int  `json:"size"`
	Flag bool `json:"flag"` // compressed flag on the wire
	// Fill "rep": a highly compressible payload (a few KiB on the wire for
	// megabytes of message) instead of one of the PRNG textures.
	Fill string `json:"fill,omitempty"`
	// Var selects one of several valid encodings of the same message under the
	// announced codec (see CompressVar); only meaningful for flagged messages.
	Var int `json:"var,omitempty"`
}

// RepPayload is a highly compressible payload that is still position
// dependent: a 61-byte text repeated, with the block number stamped every
// 64 KiB, so that truncation, shifts and swapped blocks are visible.
func RepPayload(pseed uint64, i, size int) []byte {
	const pat = "martian grpc highly compressible payload for inflation test.\n"
	b := make([]byte, size)
	for j := 0; j < size; j += len(pat) {
		copy(b[j:], pat)
	}
	tag := uint32(mix(pseed^uint64(i)) >> 40)
	for j := 0; j+8 <= size; j += 64 << 10 {
		binary.BigEndian.PutUint32(b[j:], uint32(j>>16))
		binary.BigEndian.PutUint32(b[j+4:], tag)
	}
	return b
}

func mix(x uint64) uint64 {
	x += 0x9e3779b97f4a7c15
	x = (x ^ (x >> 30)) * 0xbf58476d1ce4e5b9
	x = (x ^ (x >> 27)) * 0x94d049bb133111eb
	return x ^ (x >> 31)
}

// Payload returns the deterministic payload of message i of a spec.
// Three textures so that compressors see incompressible data, runs and
// text-like repetition.
func Payload(pseed uint64, i, size int) []byte {
	b := make([]byte, size)
	h := mix(pseed ^ mix(uint64(i)+1))
	switch h % 3 {
	case 0: // incompressible
		x := h
		for j := range b {
			if j%8 == 0 {
				x = mix(x)
			}
			b[j] = byte(x >> (8 * uint(j%8)))
		}
	case 1: // runs of 1..13 equal bytes
		x := h
		j := 0
		for j < size {
			x = mix(x)
			run := 1 + int(x%13)
			v := byte(x >> 16)
			for k := 0; k < run && j < size; k++ {
				b[j] = v
				j++
			}
		}
	default: // text-like, offset stamped
		const words = "alpha beta gamma delta martian grpc message payload "
		for j := range b {
			b[j] = words[(j+int(h%17))%len(words)]
		}
		for j := 0; j+8 <= size; j += 64 {
			binary.BigEndian.PutUint32(b[j:], uint32(j))
			binary.BigEndian.PutUint32(b[j+4:], uint32(h)+uint32(i))
		}
	}
	return b
}

// SnappyStreamID is the stream-identifier chunk of the snappy framing format.
var SnappyStreamID = []byte("\xff\x06\x00\x00sNaPpY")

// NormEnc maps the spec's encoding name to the codec name ("" = identity).
func NormEnc(enc string) string {
	if enc == "" || enc == "none" {
		return "identity"
	}
	return enc
}

// Compress encodes p for the announced grpc-encoding: gzip (RFC 1952), deflate
// (raw RFC 1951) or snappy (framing format). identity returns p.
func Compress(enc string, p []byte) []byte {
	var buf bytes.Buffer
	switch NormEnc(enc) {
	case "identity":
		return p
	case "gzip":
		w := gzip.NewWriter(&buf)
		w.Write(p)
		w.Close()
	case "deflate":
		w, _ := flate.NewWriter(&buf, flate.DefaultCompression)
		w.Write(p)
		w.Close()
	case "snappy":
		if len(p) == 0 {
			// a framed stream always starts with the stream identifier
			return append([]byte(nil), SnappyStreamID...)
		}
		w := snappy.NewBufferedWriter(&buf)
		w.Write(p)
		w.Close()
	default:
		panic("grpcx: unknown encoding " + enc)
	}
	return buf.Bytes()
}

// parts splits p into k roughly equal parts (empty parts for an empty p).
func parts(p []byte, k int) [][]byte {
	out := make([][]byte, 0, k)
	for i := 0; i < k; i++ {
		out = append(out, p[len(p)*i/k:len(p)*(i+1)/k])
	}
	return out
}

func snappyCRC(b []byte) uint32 {
	c := crc32.Checksum(b, crc32.MakeTable(crc32.Castagnoli))
	return uint32(c>>15|c<<17) + 0xa282ead8
}

// CompressVar renders p in one of several equally valid forms of the codec,
// as different senders produce them. Every form decodes to p with a
// conforming decoder.
//
//	variant 0: one writer, default level (= Compress)
//	variant 1: gzip: three concatenated members (RFC 1952 2.2); deflate: sync
//	           flushes between three parts; snappy: three flushed writes with a
//	           repeated stream-identifier chunk in between
//	variant 2: gzip: BestSpeed with name/comment/extra header fields; deflate:
//	           stored blocks (NoCompression); snappy: hand-made uncompressed
//	           chunks plus a padding chunk
//	variant 3: gzip: two HuffmanOnly members followed by an empty member;
//	           deflate: BestCompression with a flush after every part of 5;
//	           snappy: five flushed writes
func CompressVar(enc string, p []byte, variant int) []byte {
	e := NormEnc(enc)
	if variant == 0 || e == "identity" {
		return Compress(enc, p)
	}
	var buf bytes.Buffer
	switch e {
	case "gzip":
		member := func(level int, b []byte, decorate bool) {
			w, _ := gzip.NewWriterLevel(&buf, level)
			if decorate {
				w.Name = "message.bin"
				w.Comment = "verif"
				w.Extra = []byte{1, 2, 3, 4}
			}
			w.Write(b)
			w.Close()
		}
		switch variant {
		case 1:
			for _, q := range parts(p, 3) {
				member(gzip.DefaultCompression, q, false)
			}
		case 2:
			member(gzip.BestSpeed, p, true)
		default:
			for _, q := range parts(p, 2) {
				member(gzip.HuffmanOnly, q, false)
			}
			member(gzip.DefaultCompression, nil, false)
		}
	case "deflate":
		level, k := flate.DefaultCompression, 3
		switch variant {
		case 2:
			level, k = flate.NoCompression, 1
		case 3:
			level, k = flate.BestCompression, 5
		}
		w, _ := flate.NewWriter(&buf, level)
		for _, q := range parts(p, k) {
			w.Write(q)
			w.Flush()
		}
		w.Close()
	case "snappy":
		if variant == 2 {
			buf.Write(SnappyStreamID)
			for _, q := range parts(p, 2) {
				for len(q) > 0 { // uncompressed chunks hold at most 65536 bytes
					n := len(q)
					if n > 65536 {
						n = 65536
					}
					l := n + 4
					buf.Write([]byte{0x01, byte(l), byte(l >> 8), byte(l >> 16)})
					var c [4]byte
					binary.LittleEndian.PutUint32(c[:], snappyCRC(q[:n]))
					buf.Write(c[:])
					buf.Write(q[:n])
					q = q[n:]
				}
				buf.Write([]byte{0xfe, 3, 0, 0, 0, 0, 0}) // padding chunk
			}
			break
		}
		k := 3
		if variant == 3 {
			k = 5
		}
		buf.Write(SnappyStreamID)
		w := snappy.NewBufferedWriter(&buf)
		for i, q := range parts(p, k) {
			w.Write(q)
			w.Flush()
			if i == 0 && variant == 1 {
				buf.Write(SnappyStreamID) // may appear again anywhere in the stream
			}
		}
		w.Close()
	}
	return buf.Bytes()
}

// Decompress is the independent decoder for the announced encoding.
func Decompress(enc string, p []byte) ([]byte, error) {
	switch NormEnc(enc) {
	case "identity":
		return p, nil
	case "gzip":
		r, err := gzip.NewReader(bytes.NewReader(p))
		if err != nil {
			return nil, err
		}
		out, err := io.ReadAll(r)
		if err != nil {
			return nil, err
		}
		return out, r.Close()
	case "deflate":
		r := flate.NewReader(bytes.NewReader(p))
		out, err := io.ReadAll(r)
		if err != nil {
			return nil, err
		}
		return out, r.Close()
	case "snappy":
		return io.ReadAll(snappy.NewReader(bytes.NewReader(p)))
	}
	return nil, fmt.Errorf("grpcx: unknown encoding %q", enc)
}

// Seg describes where message i sits in the rendered stream.
type Seg struct {
	Start   int // offset of the 5-byte prefix
	Payload int // offset of the first payload byte (= Start+5)
	End     int // offset one past the last payload byte
}

// Rendered is a message sequence rendered to the gRPC length-prefixed wire
// format by the harness.
type Rendered struct {
	Wire     []byte
	Segs     []Seg
	Payloads [][]byte // decompressed messages (the expectation)
	Flags    []bool
}

// Render renders msgs under encoding enc.
func Render(enc string, msgs []Msg, pseed uint64) *Rendered {
	r := &Rendered{}
	for i, m := range msgs {
		p := Payload(pseed, i, m.Size)
		if m.Fill == "rep" {
			p = RepPayload(pseed, i, m.Size)
		}
		w := p
		if m.Flag {
			w = CompressVar(enc, p, m.Var)
		}
		s := Seg{Start: len(r.Wire)}
		var pre [5]byte
		if m.Flag {
			pre[0] = 1
		}
		binary.BigEndian.PutUint32(pre[1:], uint32(len(w)))
		r.Wire = append(r.Wire, pre[:]...)
		s.Payload = len(r.Wire)
		r.Wire = append(r.Wire, w...)
		s.End = len(r.Wire)
		r.Segs = append(r.Segs, s)
		r.Payloads = append(r.Payloads, p)
		r.Flags = append(r.Flags, m.Flag)
	}
	return r
}

// Frame is one deframed length-prefixed message.
type Frame struct {
	Flag    byte
	Payload []byte
}

// Deframe parses a complete length-prefixed byte stream. It fails on a
// truncated prefix or payload.
func Deframe(b []byte) ([]Frame, error) {
	var out []Frame
	off := 0
	for off < len(b) {
		if len(b)-off < 5 {
			return out, fmt.Errorf("truncated prefix at offset %d (%d trailing bytes)", off, len(b)-off)
		}
		fl := b[off]
		n := int(binary.BigEndian.Uint32(b[off+1 : off+5]))
		off += 5
		if len(b)-off < n {
			return out, fmt.Errorf("truncated payload at offset %d: declared %d, have %d", off, n, len(b)-off)
		}
		out = append(out, Frame{Flag: fl, Payload: b[off : off+n]})
		off += n
	}
	return out, nil
}

// CutClass describes a cut-point set relative to the message layout: which
// kinds of positions are cut. cuts are offsets in [1,n-1], non-decreasing
// (a repeated offset is an empty DATA frame in the middle).
func CutClass(segs []Seg, n int, cuts []int) string {
	if len(cuts) == 0 {
		return "whole"
	}
	if n > 1 && len(cuts) >= n-1 {
		all := true
		seen := 0
		prev := 0
		for _, c := range cuts {
			if c != prev {
				seen++
				prev = c
			}
		}
		if seen != n-1 {
			all = false
		}
		if all {
			return "dribble"
		}
	}
	var inPrefix, atBoundary, atPrefixEnd, inPayload, dup bool
	prev := -1
	for _, c := range cuts {
		if c == prev {
			dup = true
		}
		prev = c
		for _, s := range segs {
			switch {
			case c == s.Start && c != 0:
				atBoundary = true
			case c > s.Start && c < s.Payload:
				inPrefix = true
			case c == s.Payload && s.End > s.Payload:
				atPrefixEnd = true
			case c > s.Payload && c < s.End:
				inPayload = true
			}
		}
	}
	cl := ""
	add := func(b bool, s string) {
		if b {
			if cl != "" {
				cl += "+"
			}
			cl += s
		}
	}
	add(inPrefix, "prefix")
	add(atPrefixEnd, "prefixend")
	add(inPayload, "payload")
	add(atBoundary, "boundary")
	add(dup, "emptyframe")
	if cl == "" {
		cl = "other"
	}
	return cl
}
