package grpcx

import (
	"bytes"
	"testing"
)

func TestVariantsDecode(t *testing.T) {
	for _, enc := range []string{"gzip", "deflate", "snappy"} {
		for v := 0; v < 4; v++ {
			for _, n := range []int{0, 1, 5, 100, 70000, 200000} {
				p := Payload(7, v, n)
				w := CompressVar(enc, p, v)
				d, err := Decompress(enc, w)
				if err != nil || !bytes.Equal(d, p) {
					t.Errorf("%s var %d n %d: err %v len %d", enc, v, n, err, len(d))
				}
			}
		}
	}
}
