package cfgx

import (
	"encoding/json"
	"fmt"
	"math/rand"
	"strconv"
	"strings"
)

// Vocabulary. Small on purpose: filter conditions and messages collide often,
// so both outcomes of every condition occur.
var (
	Methods  = []string{"GET", "POST", "PUT"}
	Schemes  = []string{"http", "https"}
	Hosts    = []string{"a.example.com", "b.example.com", "a.example.com:8080", "c.example.net:443", "b.example.com:80"}
	Paths    = []string{"/p0", "/p1", "/p0/x"}
	Queries  = []string{"", "k0=v0", "k0=v1&k1=v0", "k1=v1", "k0=v0&k0=v1"}
	HNames   = []string{"X-C0", "X-C1", "X-C2"}
	Vals     = []string{"v0", "v1"}
	CNames   = []string{"c0", "c1"}
	QNames   = []string{"k0", "k1", "tags[]", "user id", "k0"}
	QVals    = []string{"v0", "v1", "x y", "v0"} // query parameter values (filters and messages)
	Statuses = []int{200, 404, 500}
	Ports    = []int{80, 443, 8080}
)

type reSpec struct {
	re   string
	make func(m *Msg)
}

// URLRegexes: patterns for url.RegexFilter with a way to make them match.
var URLRegexes = []reSpec{
	{`^http://a\.example\.com`, func(m *Msg) { m.Scheme = "http"; m.Host = "a.example.com" }},
	{`/p1`, func(m *Msg) { m.Path = "/p1" }},
	{`k0=v1`, func(m *Msg) { m.Query = "k0=v1&k1=v0" }},
	{`^https:`, func(m *Msg) { m.Scheme = "https" }},
	{`example\.(com|net)(:\d+)?/p0$`, func(m *Msg) { m.Path = "/p0"; m.Query = "" }},
	{`:8080/`, func(m *Msg) { m.Host = "a.example.com:8080" }},
}

// HdrRegexes: patterns for header.RegexFilter with a matching value.
var HdrRegexes = []struct{ re, val string }{
	{`^v0$`, "v0"}, {`v[01]`, "v1"}, {`^v1`, "v1"}, {`0`, "v0"},
}

func pick(rng *rand.Rand, n int) int { return rng.Intn(n) }

// EncQ encodes a query-string component (decoded text s) in one of the many
// legal ways a client may choose: characters that must be escaped are
// percent-encoded with upper- or lower-case hex digits (a space also as '+'),
// characters that need no escaping are sometimes percent-encoded anyway.
func EncQ(rng *rand.Rand, s string) string {
	const hexU, hexL = "0123456789ABCDEF", "0123456789abcdef"
	needless := rng.Intn(4) == 0 // this component escapes needlessly here and there
	var sb strings.Builder
	for i := 0; i < len(s); i++ {
		c := s[i]
		unreserved := c >= 'a' && c <= 'z' || c >= 'A' && c <= 'Z' || c >= '0' && c <= '9' || c == '-' || c == '_' || c == '.' || c == '~'
		switch {
		case c == ' ' && rng.Intn(2) == 0:
			sb.WriteByte('+')
		case unreserved && !(needless && rng.Intn(3) == 0):
			sb.WriteByte(c)
		default:
			hex := hexU
			if rng.Intn(2) == 0 {
				hex = hexL
			}
			sb.WriteByte('%')
			sb.WriteByte(hex[c>>4])
			sb.WriteByte(hex[c&15])
		}
	}
	return sb.String()
}

// Respell returns method token m in a random case spelling: HTTP method
// tokens are case-sensitive on the wire and pass through net/http unchanged,
// while method.Filter compares them ignoring case (martian's own tests
// configure "get" against GET requests), so both sides are drawn in upper,
// lower and mixed case.
func Respell(rng *rand.Rand, m string) string {
	switch rng.Intn(10) {
	case 0, 1:
		return strings.ToLower(m)
	case 2:
		return m[:1] + strings.ToLower(m[1:])
	}
	return m
}

// GenOpts bounds the random tree generator.
type GenOpts struct {
	MaxDepth  int    // levels, >= 1
	MaxWidth  int    // group children
	IDPrefix  string // prefix of probe ids (distinguishes configurations)
	NoScopes  bool   // all scopes absent
	ErrProb   int    // percent of probes that return errors (default 20)
	LeafProbe bool   // only probe leaves (no real modifiers)
	Counters  bool   // a share of the probes count the messages they have seen (stateful leaves)
}

type gen struct {
	rng *rand.Rand
	o   GenOpts
	nid int
}

// GenTree draws a random valid configuration tree.
func GenTree(rng *rand.Rand, o GenOpts) *Node {
	if o.ErrProb == 0 {
		o.ErrProb = 20
	}
	g := &gen{rng: rng, o: o}
	d := 1 + rng.Intn(o.MaxDepth)
	if rng.Intn(3) != 0 {
		d = o.MaxDepth - rng.Intn((o.MaxDepth+1)/2)
	}
	return g.node(d, true)
}

func (g *gen) scope(kind string) Scope {
	if g.o.NoScopes {
		return ScAbsent
	}
	x := g.rng.Intn(100)
	var s Scope
	switch {
	case x < 45:
		s = ScAbsent
	case x < 60:
		s = ScReq
	case x < 75:
		s = ScRes
	case x < 88:
		s = ScBoth
	case x < 93:
		s = ScBothRev
	default:
		s = ScNone
	}
	// a valid tree only names kinds the node supports
	if (!Supports(kind, Req) && s.Has(Req) || !Supports(kind, Res) && s.Has(Res)) && s != ScAbsent {
		if Supports(kind, Req) {
			return ScReq
		}
		return ScRes
	}
	return s
}

// SharedErrTexts are failure messages several probes of one tree may share.
var SharedErrTexts = []string{"backend unavailable", "quota exceeded"}

func (g *gen) id() string {
	g.nid++
	return g.o.IDPrefix + strconv.Itoa(g.nid)
}

func (g *gen) leaf() *Node {
	x := g.rng.Intn(100)
	if g.o.LeafProbe {
		x = g.rng.Intn(72)
	}
	n := &Node{A: map[string]string{}}
	switch {
	case x < 60:
		n.Kind = KProbe
		n.A["id"] = g.id()
		if g.o.Counters && g.rng.Intn(3) == 0 {
			n.A["count"] = "1"
		}
		if g.rng.Intn(100) < g.o.ErrProb {
			n.ErrOn = [][]Kind{{Req}, {Res}, {Req, Res}}[g.rng.Intn(3)]
			// every third failing probe (by id number, no extra PRNG draw) fails with
			// one of two shared texts: distinct failures need not have distinct messages
			if g.nid%3 == 0 {
				n.A["errText"] = SharedErrTexts[(g.nid/3)%2]
			}
		}
	case x < 66:
		n.Kind = KProbeReq
		n.A["id"] = g.id()
		if g.rng.Intn(100) < g.o.ErrProb {
			n.ErrOn = []Kind{Req}
		}
	case x < 72:
		n.Kind = KProbeRes
		n.A["id"] = g.id()
		if g.rng.Intn(100) < g.o.ErrProb {
			n.ErrOn = []Kind{Res}
		}
	case x < 80:
		n.Kind = KHdrMod
		n.A["name"] = HNames[pick(g.rng, len(HNames))]
		n.A["value"] = Vals[pick(g.rng, len(Vals))]
	case x < 87:
		n.Kind = KHdrApp
		n.A["name"] = HNames[pick(g.rng, len(HNames))]
		n.A["value"] = Vals[pick(g.rng, len(Vals))]
	case x < 91:
		n.Kind = KHdrDel
		n.A["names"] = HNames[pick(g.rng, len(HNames))]
	case x < 94:
		n.Kind = KStatusMod
		n.A["statusCode"] = strconv.Itoa(Statuses[pick(g.rng, len(Statuses))])
	case x < 98:
		// rewrites parts of the request URL: url / url-regex / querystring / port filters
		// evaluated later - and on the response of the exchange - see the new URL
		n.Kind = KURLMod
		for len(n.A) == 0 {
			if g.rng.Intn(4) == 0 {
				n.A["scheme"] = Schemes[pick(g.rng, len(Schemes))]
			}
			if g.rng.Intn(2) == 0 {
				n.A["host"] = Hosts[pick(g.rng, len(Hosts))]
			}
			if g.rng.Intn(3) == 0 {
				n.A["path"] = Paths[pick(g.rng, len(Paths))]
			}
			if g.rng.Intn(4) == 0 {
				n.A["query"] = Queries[1+pick(g.rng, len(Queries)-1)]
			}
		}
	default:
		n.Kind = KNoop
		n.A["name"] = "n" + g.id()
	}
	n.Scope = g.scope(n.Kind)
	return n
}

// FilterKinds in generator order.
var FilterKinds = []string{KURL, KURLRe, KHdr, KHdrRe, KQS, KMethod, KCookie, KPort}

func (g *gen) filterParams(n *Node) {
	r := g.rng
	switch n.Kind {
	case KURL:
		// at least one part, sometimes several
		for len(n.A) == 0 {
			if r.Intn(3) == 0 {
				n.A["scheme"] = Schemes[pick(r, len(Schemes))]
			}
			if r.Intn(2) == 0 {
				n.A["host"] = Hosts[pick(r, len(Hosts))]
			}
			if r.Intn(2) == 0 {
				n.A["path"] = Paths[pick(r, len(Paths))]
			}
			if r.Intn(4) == 0 {
				n.A["query"] = Queries[1+pick(r, len(Queries)-1)]
			}
		}
	case KURLRe:
		n.A["regex"] = URLRegexes[pick(r, len(URLRegexes))].re
	case KHdr:
		n.A["name"] = HNames[pick(r, len(HNames))]
		n.A["value"] = Vals[pick(r, len(Vals))]
		if r.Intn(8) == 0 {
			// Host lives outside the header map (req.Host); a response has none
			n.A["name"] = "Host"
			n.A["value"] = Hosts[pick(r, len(Hosts))]
		}
	case KHdrRe:
		n.A["header"] = HNames[pick(r, len(HNames))]
		n.A["regex"] = HdrRegexes[pick(r, len(HdrRegexes))].re
	case KQS:
		n.A["name"] = QNames[pick(r, len(QNames))]
		if r.Intn(3) != 0 {
			n.A["value"] = QVals[pick(r, len(QVals))]
		}
	case KMethod:
		n.A["method"] = Respell(r, Methods[pick(r, len(Methods))])
	case KCookie:
		n.A["name"] = CNames[pick(r, len(CNames))]
		if r.Intn(3) != 0 {
			n.A["value"] = Vals[pick(r, len(Vals))]
		}
	case KPort:
		n.A["port"] = strconv.Itoa(Ports[pick(r, len(Ports))])
	}
}

func (g *gen) node(rem int, root bool) *Node {
	if rem <= 1 {
		return g.leaf()
	}
	if !root && g.rng.Intn(100) < 30 {
		return g.leaf()
	}
	n := &Node{A: map[string]string{}}
	x := g.rng.Intn(100)
	switch {
	case x < 30:
		n.Kind = KFifo
		n.Agg = g.rng.Intn(2) == 0
	case x < 50:
		n.Kind = KPrio
	default:
		n.Kind = FilterKinds[pick(g.rng, len(FilterKinds))]
	}
	n.Scope = g.scope(n.Kind)
	if IsGroup(n.Kind) {
		w := g.rng.Intn(g.o.MaxWidth + 1)
		if g.rng.Intn(4) != 0 && w < 2 {
			w = 2
		}
		if w > g.o.MaxWidth {
			w = g.o.MaxWidth
		}
		for i := 0; i < w; i++ {
			n.Kids = append(n.Kids, g.node(rem-1, false))
			if n.Kind == KPrio {
				// few distinct values: ties are common; negative and large ones too
				n.Prio = append(n.Prio, []int64{0, 1, 1, 2, -1, 10, 1 << 40}[g.rng.Intn(7)])
			}
		}
		return n
	}
	g.filterParams(n)
	n.Mod = g.node(rem-1, false)
	if HasElse(n.Kind) && g.rng.Intn(100) < 60 {
		n.Else = g.node(rem-1, false)
	}
	return n
}

// ---------------------------------------------------------------------------
// messages

// Wish changes m so that filter n's condition holds for it (for message kind
// k where that matters). Later wishes may undo earlier ones; the reference
// interpreter decides what actually holds.
func Wish(rng *rand.Rand, n *Node, m *Msg) {
	switch n.Kind {
	case KURL:
		if v := n.Attr("scheme"); v != "" {
			m.Scheme = v
		}
		if v := n.Attr("host"); v != "" {
			m.Host = v
		}
		if v := n.Attr("path"); v != "" {
			m.Path = v
		}
		if v := n.Attr("query"); v != "" {
			m.Query = v
		}
	case KURLRe:
		for _, s := range URLRegexes {
			if s.re == n.Attr("regex") {
				s.make(m)
			}
		}
	case KHdr:
		if n.Attr("name") == "Host" {
			m.Host = n.Attr("value")
			return
		}
		p := Pair{n.Attr("name"), n.Attr("value")}
		switch rng.Intn(3) {
		case 0:
			m.ReqHdr = append(m.ReqHdr, p)
		case 1:
			m.ResHdr = append(m.ResHdr, p)
		default:
			m.ReqHdr = append(m.ReqHdr, p)
			m.ResHdr = append(m.ResHdr, p)
		}
	case KHdrRe:
		for _, s := range HdrRegexes {
			if s.re == n.Attr("regex") {
				// first value decides: put it in front
				m.ReqHdr = append([]Pair{{n.Attr("header"), s.val}}, m.ReqHdr...)
			}
		}
	case KQS:
		v := n.Attr("value")
		if v == "" {
			v = QVals[pick(rng, len(QVals))]
		}
		kv := EncQ(rng, n.Attr("name")) + "=" + EncQ(rng, v)
		if m.Query == "" {
			m.Query = kv
		} else {
			m.Query += "&" + kv
		}
	case KMethod:
		m.Method = Respell(rng, strings.ToUpper(n.Attr("method")))
	case KCookie:
		v := n.Attr("value")
		if v == "" {
			v = Vals[pick(rng, len(Vals))]
		}
		p := Pair{n.Attr("name"), v}
		switch rng.Intn(3) {
		case 0:
			m.Cookies = append(m.Cookies, p)
		case 1:
			m.SetCk = append(m.SetCk, p)
		default:
			m.Cookies = append(m.Cookies, p)
			m.SetCk = append(m.SetCk, p)
		}
	case KPort:
		switch n.AttrInt("port") {
		case 80:
			if rng.Intn(2) == 0 {
				m.Scheme, m.Host = "http", "a.example.com"
			} else {
				m.Host = "b.example.com:80"
			}
		case 443:
			if rng.Intn(2) == 0 {
				m.Scheme, m.Host = "https", "b.example.com"
			} else {
				m.Host = "c.example.net:443"
			}
		case 8080:
			m.Host = "a.example.com:8080"
		}
	}
}

// RandQuery draws a raw query string: one of the fixed ones (url.Filter's
// "query" part compares the raw text) or 0..3 parameters from the vocabulary,
// each component encoded in a randomly chosen legal way.
func RandQuery(rng *rand.Rand) string {
	if rng.Intn(2) == 0 {
		return Queries[pick(rng, len(Queries))]
	}
	var parts []string
	for i := rng.Intn(4); i > 0; i-- {
		parts = append(parts, EncQ(rng, QNames[pick(rng, len(QNames))])+"="+EncQ(rng, QVals[pick(rng, len(QVals))]))
	}
	if rng.Intn(8) == 0 {
		parts = append(parts, MalformedPairs[pick(rng, len(MalformedPairs))])
	}
	return strings.Join(parts, "&")
}

// MalformedPairs are query-string pairs that net/url's ParseQuery rejects (a
// stray percent sign, ';' used as a separator) but that are legal on the wire
// and reach the modifiers untouched. Their names are outside the vocabulary,
// so they never decide a filter condition or a verifier's key.
var MalformedPairs = []string{"zz=%zz", "zy=100%", "s1=1;s2=2", "%zx=1"}

// Malformed reports whether the raw query contains one of the MalformedPairs.
func Malformed(rawQuery string) bool {
	for _, kv := range strings.Split(rawQuery, "&") {
		for _, m := range MalformedPairs {
			if kv == m {
				return true
			}
		}
	}
	return false
}

// Respace re-renders JSON text with different insignificant whitespace (the
// same configuration "up to whitespace").
func Respace(rng *rand.Rand, js string) string {
	var sb strings.Builder
	inStr := false
	ws := []string{"", " ", "\n", "  ", "\t", "\n  "}
	for i := 0; i < len(js); i++ {
		c := js[i]
		sb.WriteByte(c)
		if inStr {
			if c == '\\' && i+1 < len(js) {
				i++
				sb.WriteByte(js[i])
			} else if c == '"' {
				inStr = false
			}
			continue
		}
		switch c {
		case '"':
			inStr = true
		case '{', '[', ',', ':':
			sb.WriteString(ws[rng.Intn(len(ws))])
		}
	}
	if rng.Intn(3) == 0 {
		return sb.String() + "\n"
	}
	return sb.String()
}

// RandMsg draws a message from the vocabulary.
func RandMsg(rng *rand.Rand) *Msg {
	m := &Msg{
		Method: Respell(rng, Methods[pick(rng, len(Methods))]),
		Scheme: Schemes[pick(rng, len(Schemes))],
		Host:   Hosts[pick(rng, len(Hosts))],
		Path:   Paths[pick(rng, len(Paths))],
		Query:  RandQuery(rng),
		Status: Statuses[pick(rng, len(Statuses))],
	}
	for i := rng.Intn(3); i > 0; i-- {
		m.ReqHdr = append(m.ReqHdr, Pair{HNames[pick(rng, len(HNames))], Vals[pick(rng, len(Vals))]})
	}
	for i := rng.Intn(3); i > 0; i-- {
		m.ResHdr = append(m.ResHdr, Pair{HNames[pick(rng, len(HNames))], Vals[pick(rng, len(Vals))]})
	}
	for i := rng.Intn(2); i > 0; i-- {
		m.Cookies = append(m.Cookies, Pair{CNames[pick(rng, len(CNames))], Vals[pick(rng, len(Vals))]})
	}
	for i := rng.Intn(2); i > 0; i-- {
		m.SetCk = append(m.SetCk, Pair{CNames[pick(rng, len(CNames))], Vals[pick(rng, len(Vals))]})
	}
	return m
}

// Filters lists the filter nodes of a tree.
func Filters(t *Node) []*Node {
	var fs []*Node
	t.Walk(func(n *Node, _ int) {
		if IsFilter(n.Kind) {
			fs = append(fs, n)
		}
	})
	return fs
}

// GenMsgs draws count messages for tree t: the first tries to make every
// filter condition true, the second is drawn blind from the vocabulary (most
// conditions false), the others satisfy a random subset.
func GenMsgs(rng *rand.Rand, t *Node, count int) []*Msg {
	fs := Filters(t)
	var out []*Msg
	for j := 0; j < count; j++ {
		m := RandMsg(rng)
		switch {
		case j == 0:
			for _, i := range rng.Perm(len(fs)) {
				Wish(rng, fs[i], m)
			}
		case j == 1:
		default:
			for _, i := range rng.Perm(len(fs)) {
				if rng.Intn(2) == 0 {
					Wish(rng, fs[i], m)
				}
			}
		}
		out = append(out, m)
	}
	return out
}

// ---------------------------------------------------------------------------
// invalid configurations

// UnknownNames are modifier names that are not registered.
var UnknownNames = []string{"bogus.Modifier", "fifo.group", "verif.Probe2", "header.modifier", "", "url.Filter ", "Fifo.Group"}

// BogusScopes are scope strings outside {request, response}.
var BogusScopes = []string{"both", "Request", "RESPONSE", "", "req", "request "}

// MakeInvalid returns a copy of the valid tree t carrying one defect at a
// random node, and the defect's name. kinds restricts the defect choice
// (nil = any node defect).
func MakeInvalid(rng *rand.Rand, t *Node, kinds []string) (*Node, string) {
	c := t.Clone()
	var nodes []*Node
	c.Walk(func(n *Node, _ int) { nodes = append(nodes, n) })
	if kinds == nil {
		kinds = []string{BadUnknown, BadTwoKeys, BadTwoKeysUnk, BadNoKeys, BadScopeBogus, BadScopeUnsupp}
	}
	bad := kinds[rng.Intn(len(kinds))]
	n := nodes[rng.Intn(len(nodes))]
	switch bad {
	case BadUnknown:
		n.BadV = UnknownNames[rng.Intn(len(UnknownNames))]
	case BadTwoKeys:
		n.BadV = KProbe
		if n.Kind == KProbe {
			n.BadV = KNoop
		}
	case BadTwoKeysUnk:
		n.BadV = "bogus.Modifier"
	case BadNoKeys:
	case BadScopeBogus:
		n.BadV = BogusScopes[rng.Intn(len(BogusScopes))]
	case BadScopeUnsupp:
		// needs a leaf that supports one kind only; turn a random leaf into one if necessary
		var cands, leaves []*Node
		for _, x := range nodes {
			if len(x.Children()) == 0 {
				leaves = append(leaves, x)
				if !Supports(x.Kind, Req) || !Supports(x.Kind, Res) {
					cands = append(cands, x)
				}
			}
		}
		if len(cands) == 0 {
			x := leaves[rng.Intn(len(leaves))]
			x.A = map[string]string{}
			switch rng.Intn(3) {
			case 0:
				x.Kind = KProbeReq
				x.A["id"] = "u1"
			case 1:
				x.Kind = KProbeRes
				x.A["id"] = "u1"
			default:
				x.Kind = KStatusMod
				x.A["statusCode"] = "404"
			}
			x.ErrOn = nil
			cands = []*Node{x}
		}
		n = cands[rng.Intn(len(cands))]
		if Supports(n.Kind, Req) {
			n.BadV = []string{"response", "request,response", "response,request"}[rng.Intn(3)]
		} else {
			n.BadV = []string{"request", "request,response", "response,request"}[rng.Intn(3)]
		}
	}
	n.Bad = bad
	return c, bad
}

// CorruptSyntax deletes, doubles or replaces one structural character of the
// valid JSON text s at brace depth d (counting from 1 = outermost object;
// d = 0 picks any depth) so that the result is malformed JSON (checked with
// encoding/json.Valid, the definition of "malformed" used here). It returns
// the text and the depth hit, or "" if no corruption at that depth is
// malformed.
func CorruptSyntax(rng *rand.Rand, s string, d int) (string, int) {
	type pos struct{ i, depth int }
	var ps []pos
	depth := 0
	inStr := false
	for i := 0; i < len(s); i++ {
		c := s[i]
		if inStr {
			if c == '\\' {
				i++
			} else if c == '"' {
				inStr = false
				ps = append(ps, pos{i, depth})
			}
			continue
		}
		switch c {
		case '"':
			inStr = true
			ps = append(ps, pos{i, depth})
		case '{':
			depth++
			ps = append(ps, pos{i, depth})
		case '}':
			ps = append(ps, pos{i, depth})
			depth--
		case '[', ']', ':', ',':
			ps = append(ps, pos{i, depth})
		}
	}
	var cand []pos
	for _, p := range ps {
		if d == 0 || p.depth == d {
			cand = append(cand, p)
		}
	}
	for try := 0; try < 20 && len(cand) > 0; try++ {
		p := cand[rng.Intn(len(cand))]
		var out string
		switch rng.Intn(4) {
		case 0, 1:
			out = s[:p.i] + s[p.i+1:] // delete
		case 2:
			out = s[:p.i] + string(s[p.i]) + s[p.i:] // double
		default:
			out = s[:p.i] + ";" + s[p.i+1:] // replace
		}
		if !json.Valid([]byte(out)) {
			return out, p.depth
		}
	}
	return "", 0
}

// MaxBraceDepth returns the deepest object nesting of JSON text s.
func MaxBraceDepth(s string) int {
	depth, max := 0, 0
	inStr := false
	for i := 0; i < len(s); i++ {
		c := s[i]
		if inStr {
			if c == '\\' {
				i++
			} else if c == '"' {
				inStr = false
			}
			continue
		}
		switch c {
		case '"':
			inStr = true
		case '{':
			depth++
			if depth > max {
				max = depth
			}
		case '}':
			depth--
		}
	}
	return max
}

// Describe is a one-line rendering of the tree for witnesses.
func (n *Node) Describe() string {
	var sb strings.Builder
	n.describe(&sb)
	return sb.String()
}

func (n *Node) describe(sb *strings.Builder) {
	sb.WriteString(KindAbbrev(n.Kind))
	if n.Scope != ScAbsent {
		sb.WriteString("/" + n.Scope.Abbrev())
	}
	if id := n.Attr("id"); id != "" {
		sb.WriteString(":" + id)
	}
	if len(n.ErrOn) > 0 {
		sb.WriteString("!")
	}
	if n.Agg {
		sb.WriteString("+agg")
	}
	cs := n.Children()
	if len(cs) == 0 {
		return
	}
	sb.WriteString("(")
	for i, c := range n.Kids {
		if i > 0 {
			sb.WriteString(" ")
		}
		if n.Kind == KPrio {
			fmt.Fprintf(sb, "%d:", n.Prio[i])
		}
		c.describe(sb)
	}
	if n.Mod != nil {
		sb.WriteString("then ")
		n.Mod.describe(sb)
	}
	if n.Else != nil {
		sb.WriteString(" else ")
		n.Else.describe(sb)
	}
	sb.WriteString(")")
}
