// Package cfgx holds what the C12 and C13 checks share: the structured
// description ("spec") of a martian JSON modifier configuration tree, its
// rendering to the JSON that martian parses, a harness-registered probe leaf,
// abstract messages, generators and a reference interpreter written from the
// property statement (never from martian's own evaluation).
package cfgx

import (
	"encoding/json"
	"sort"
	"strconv"
	"strings"
)

// Kind of message a modifier can act on.
type Kind int

const (
	Req Kind = iota
	Res
)

func (k Kind) String() string {
	if k == Req {
		return "request"
	}
	return "response"
}

// Scope patterns drawn independently at every node.
type Scope int

const (
	ScAbsent  Scope = iota // no "scope" key: both kinds (as far as the node supports them)
	ScReq                  // ["request"]
	ScRes                  // ["response"]
	ScBoth                 // ["request","response"]
	ScNone                 // []: names no kind
	ScBothRev              // ["response","request"]
	nScopes
)

// Has reports whether the scope names message kind k.
func (s Scope) Has(k Kind) bool {
	switch s {
	case ScAbsent, ScBoth, ScBothRev:
		return true
	case ScReq:
		return k == Req
	case ScRes:
		return k == Res
	}
	return false
}

// Abbrev is the one-letter code used in coverage classes.
func (s Scope) Abbrev() string {
	return [...]string{"a", "q", "s", "b", "e", "b"}[s]
}

func (s Scope) list() []string {
	switch s {
	case ScReq:
		return []string{"request"}
	case ScRes:
		return []string{"response"}
	case ScBoth:
		return []string{"request", "response"}
	case ScBothRev:
		return []string{"response", "request"}
	case ScNone:
		return []string{}
	}
	return nil
}

// Node kinds (the JSON names registered with martian's parse package).
const (
	KFifo      = "fifo.Group"
	KPrio      = "priority.Group"
	KURL       = "url.Filter"
	KURLRe     = "url.RegexFilter"
	KHdr       = "header.Filter"
	KHdrRe     = "header.RegexFilter"
	KQS        = "querystring.Filter"
	KMethod    = "method.Filter"
	KCookie    = "cookie.Filter"
	KPort      = "port.Filter"
	KProbe     = "verif.Probe"    // harness probe leaf, request+response
	KProbeReq  = "verif.ProbeReq" // harness probe leaf, request only
	KProbeRes  = "verif.ProbeRes" // harness probe leaf, response only
	KHdrMod    = "header.Modifier"
	KHdrApp    = "header.Append"
	KHdrDel    = "header.Blacklist"
	KStatusMod = "status.Modifier"
	KNoop      = "noop.Modifier"
	KURLMod    = "url.Modifier" // request only: rewrites the given parts of the request URL

	KVStatus   = "status.Verifier"
	KVHeader   = "header.Verifier"
	KVMethod   = "method.Verifier"
	KVURL      = "url.Verifier"
	KVQS       = "querystring.Verifier"
	KVFailure  = "failure.Verifier"
	KVPingback = "pingback.Verifier"
)

// Abbrev of node kinds for coverage classes.
var kindAbbrev = map[string]string{
	KFifo: "Fg", KPrio: "Pg", KURL: "uF", KURLRe: "uR", KHdr: "hF", KHdrRe: "hR", KQS: "qF", KMethod: "mF",
	KCookie: "cF", KPort: "pF", KProbe: "pr", KProbeReq: "pq", KProbeRes: "ps", KHdrMod: "hM", KHdrApp: "hA",
	KHdrDel: "hD", KStatusMod: "sM", KNoop: "no", KURLMod: "uM",
	KVStatus: "vS", KVHeader: "vH", KVMethod: "vM", KVURL: "vU", KVQS: "vQ", KVFailure: "vF", KVPingback: "vP",
}

// KindAbbrev returns the short code of a node kind.
func KindAbbrev(k string) string {
	if a, ok := kindAbbrev[k]; ok {
		return a
	}
	return k
}

// IsGroup / IsFilter / IsVerifier classify node kinds.
func IsGroup(k string) bool { return k == KFifo || k == KPrio }
func IsFilter(k string) bool {
	switch k {
	case KURL, KURLRe, KHdr, KHdrRe, KQS, KMethod, KCookie, KPort:
		return true
	}
	return false
}
func IsVerifier(k string) bool { return strings.HasSuffix(k, ".Verifier") }

// HasElse reports whether the filter kind supports an else branch.
func HasElse(k string) bool {
	switch k {
	case KURL, KURLRe, KHdr, KQS, KMethod, KCookie:
		return true
	}
	return false
}

// Supports reports whether a leaf kind can act on message kind k at all
// (containers support both kinds).
func Supports(kind string, k Kind) bool {
	switch kind {
	case KProbeReq, KURLMod, KVMethod, KVURL, KVQS, KVFailure, KVPingback:
		return k == Req
	case KProbeRes, KStatusMod, KVStatus:
		return k == Res
	}
	return true
}

// Defects a node can carry in an *invalid* configuration.
const (
	BadUnknown      = "unknown-name"      // the modifier name is not registered
	BadTwoKeys      = "two-keys"          // the node object has two registered modifier keys
	BadTwoKeysUnk   = "two-keys-unknown"  // ... one of them unregistered
	BadNoKeys       = "no-keys"           // the node object is {}
	BadScopeBogus   = "scope-bogus"       // scope names something outside {request, response}
	BadScopeUnsupp  = "scope-unsupported" // scope names a kind the node cannot act on
	BadSyntax       = "syntax"            // (whole text) malformed JSON; not a node defect
	BadSyntaxNested = "syntax-nested"
)

// Node is the spec of one configuration tree node.
type Node struct {
	Kind  string            `json:"kind"`
	Scope Scope             `json:"scope,omitempty"`
	Agg   bool              `json:"agg,omitempty"`    // fifo.Group aggregateErrors
	Kids  []*Node           `json:"kids,omitempty"`   // group children, in listed order
	Prio  []int64           `json:"prio,omitempty"`   // priority.Group priorities, parallel to Kids
	Mod   *Node             `json:"mod,omitempty"`    // filter "modifier"
	Else  *Node             `json:"else,omitempty"`   // filter "else"
	A     map[string]string `json:"a,omitempty"`      // parameters (name, value, regex, port, id, ...)
	ErrOn []Kind            `json:"err_on,omitempty"` // probe: message kinds on which it returns an error
	Bad   string            `json:"bad,omitempty"`    // defect carried in an invalid configuration
	BadV  string            `json:"bad_v,omitempty"`  // detail of the defect (bogus scope string, ...)
}

// Attr returns parameter k.
func (n *Node) Attr(k string) string { return n.A[k] }

// AttrInt returns parameter k as an int.
func (n *Node) AttrInt(k string) int {
	v, _ := strconv.Atoi(n.A[k])
	return v
}

// ErrsOn reports whether the probe returns an error on kind k.
func (n *Node) ErrsOn(k Kind) bool {
	for _, e := range n.ErrOn {
		if e == k {
			return true
		}
	}
	return false
}

// Children lists the direct sub-nodes (group children, then modifier, else).
func (n *Node) Children() []*Node {
	var out []*Node
	out = append(out, n.Kids...)
	if n.Mod != nil {
		out = append(out, n.Mod)
	}
	if n.Else != nil {
		out = append(out, n.Else)
	}
	return out
}

// Walk visits the tree depth-first, pre-order.
func (n *Node) Walk(f func(n *Node, depth int)) { n.walk(f, 1) }

func (n *Node) walk(f func(*Node, int), d int) {
	f(n, d)
	for _, c := range n.Children() {
		c.walk(f, d+1)
	}
}

// Depth is the number of levels (a leaf has depth 1).
func (n *Node) Depth() int {
	m := 0
	n.Walk(func(_ *Node, d int) {
		if d > m {
			m = d
		}
	})
	return m
}

// Size is the number of nodes.
func (n *Node) Size() int {
	c := 0
	n.Walk(func(*Node, int) { c++ })
	return c
}

// Clone returns a deep copy.
func (n *Node) Clone() *Node {
	if n == nil {
		return nil
	}
	c := *n
	c.Kids = nil
	for _, k := range n.Kids {
		c.Kids = append(c.Kids, k.Clone())
	}
	c.Prio = append([]int64(nil), n.Prio...)
	c.Mod = n.Mod.Clone()
	c.Else = n.Else.Clone()
	if n.A != nil {
		c.A = map[string]string{}
		for k, v := range n.A {
			c.A[k] = v
		}
	}
	c.ErrOn = append([]Kind(nil), n.ErrOn...)
	return &c
}

// KindSet returns the sorted abbreviations of the node kinds present.
func (n *Node) KindSet(containersOnly bool) string {
	set := map[string]bool{}
	n.Walk(func(x *Node, _ int) {
		if containersOnly && !IsGroup(x.Kind) && !IsFilter(x.Kind) {
			return
		}
		set[KindAbbrev(x.Kind)] = true
	})
	ks := make([]string, 0, len(set))
	for k := range set {
		ks = append(ks, k)
	}
	sort.Strings(ks)
	return strings.Join(ks, "+")
}

// ScopeSet returns the sorted scope-pattern codes used in the tree.
func (n *Node) ScopeSet() string {
	set := map[string]bool{}
	n.Walk(func(x *Node, _ int) { set[x.Scope.Abbrev()] = true })
	ks := make([]string, 0, len(set))
	for k := range set {
		ks = append(ks, k)
	}
	sort.Strings(ks)
	return strings.Join(ks, "")
}

// ---------------------------------------------------------------------------
// rendering to martian's JSON

type jw struct{ sb strings.Builder }

func (w *jw) str(s string) {
	b, _ := json.Marshal(s)
	w.sb.Write(b)
}

func (w *jw) key(first *bool, k string) {
	if !*first {
		w.sb.WriteByte(',')
	}
	*first = false
	w.str(k)
	w.sb.WriteByte(':')
}

// intKeys are parameters rendered as JSON numbers.
var intKeys = map[string]bool{"port": true, "statusCode": true}

// JSON renders the node as the JSON message martian's parse.FromJSON expects.
func (n *Node) JSON() string {
	var w jw
	n.render(&w)
	return w.sb.String()
}

func (n *Node) render(w *jw) {
	name := n.Kind
	switch n.Bad {
	case BadUnknown:
		name = n.BadV
	case BadNoKeys:
		w.sb.WriteString("{}")
		return
	}
	w.sb.WriteByte('{')
	if n.Bad == BadTwoKeys || n.Bad == BadTwoKeysUnk {
		// an additional sibling key in the same node object
		w.str(n.BadV)
		w.sb.WriteString(`:{"id":"extra"},`)
	}
	w.str(name)
	w.sb.WriteString(":{")
	first := true
	// scope
	var sc []string
	hasScope := false
	switch n.Bad {
	case BadScopeBogus:
		sc, hasScope = []string{n.BadV}, true
	case BadScopeUnsupp:
		sc, hasScope = strings.Split(n.BadV, ","), true
	default:
		if n.Scope != ScAbsent {
			sc, hasScope = n.Scope.list(), true
		}
	}
	if hasScope {
		w.key(&first, "scope")
		w.sb.WriteByte('[')
		for i, s := range sc {
			if i > 0 {
				w.sb.WriteByte(',')
			}
			w.str(s)
		}
		w.sb.WriteByte(']')
	}
	// parameters in sorted order (deterministic text)
	ks := make([]string, 0, len(n.A))
	for k := range n.A {
		ks = append(ks, k)
	}
	sort.Strings(ks)
	for _, k := range ks {
		w.key(&first, k)
		switch {
		case intKeys[k]:
			w.sb.WriteString(n.A[k])
		case k == "names":
			w.sb.WriteByte('[')
			w.str(n.A[k])
			w.sb.WriteByte(']')
		default:
			w.str(n.A[k])
		}
	}
	if len(n.ErrOn) > 0 {
		w.key(&first, "errOn")
		w.sb.WriteByte('[')
		for i, k := range n.ErrOn {
			if i > 0 {
				w.sb.WriteByte(',')
			}
			w.str(k.String())
		}
		w.sb.WriteByte(']')
	}
	switch {
	case n.Kind == KFifo:
		if n.Agg {
			w.key(&first, "aggregateErrors")
			w.sb.WriteString("true")
		}
		w.key(&first, "modifiers")
		w.sb.WriteByte('[')
		for i, c := range n.Kids {
			if i > 0 {
				w.sb.WriteByte(',')
			}
			c.render(w)
		}
		w.sb.WriteByte(']')
	case n.Kind == KPrio:
		w.key(&first, "modifiers")
		w.sb.WriteByte('[')
		for i, c := range n.Kids {
			if i > 0 {
				w.sb.WriteByte(',')
			}
			w.sb.WriteString(`{"priority":`)
			w.sb.WriteString(strconv.FormatInt(n.Prio[i], 10))
			w.sb.WriteString(`,"modifier":`)
			c.render(w)
			w.sb.WriteByte('}')
		}
		w.sb.WriteByte(']')
	case IsFilter(n.Kind):
		w.key(&first, "modifier")
		n.Mod.render(w)
		if n.Else != nil {
			w.key(&first, "else")
			n.Else.render(w)
		}
	}
	w.sb.WriteString("}}")
}
