package cfgx

import (
	"regexp"
	"sort"
	"strconv"
	"strings"
	"sync"
)

// Ref is the reference interpreter of a configuration tree, written from the
// statement of property C12:
//
//   - evaluation is depth-first;
//   - a FIFO group applies its children in listed order;
//   - a priority group applies them in descending priority, the later-listed
//     first among equals;
//   - a filter applies its modifier when its condition holds for the message
//     and its else-branch otherwise;
//   - each node acts only on the message kinds named in its scope (no scope =
//     every kind the node supports);
//   - the first error stops a group unless it aggregates errors, in which case
//     all children run and every error is reported once.
//
// It never calls into martian.
type Ref struct {
	St *State
	// Conds is the outcome vector of the filter conditions evaluated, in
	// evaluation order.
	Conds []bool
	// OnVerifier, if set, is called when evaluation reaches a verifier leaf
	// (C13); verifiers never fail and never change the message.
	OnVerifier func(n *Node, k Kind, st *State)
	// Stopped counts groups that were stopped by an error; Aggregated counts
	// errors collected by aggregating groups.
	Stopped, Aggregated int
	// Counts is the state of the counting probes of the installed instance of
	// the configuration (probe id -> messages seen); shared by the caller
	// across the evaluations of one installed instance, fresh for a fresh one.
	Counts map[string]int
}

var (
	reMu    sync.Mutex
	reCache = map[string]*regexp.Regexp{}
)

func compiled(p string) *regexp.Regexp {
	reMu.Lock()
	defer reMu.Unlock()
	r, ok := reCache[p]
	if !ok {
		r = regexp.MustCompile(p)
		reCache[p] = r
	}
	return r
}

func contains(vs []string, v string) bool {
	for _, x := range vs {
		if x == v {
			return true
		}
	}
	return false
}

// Cond decides whether filter n's condition holds for the message of kind k.
// Conditions about the request line (URL, method, query, port) refer, for a
// response, to the request of the same exchange.
func Cond(n *Node, k Kind, st *State) bool {
	switch n.Kind {
	case KURL:
		if v := n.Attr("scheme"); v != "" && v != st.Scheme {
			return false
		}
		if v := n.Attr("host"); v != "" && v != st.Host {
			return false
		}
		if v := n.Attr("path"); v != "" && v != st.Path {
			return false
		}
		if v := n.Attr("query"); v != "" && v != st.Query {
			return false
		}
		return true
	case KURLRe:
		return compiled(n.Attr("regex")).MatchString(st.URL())
	case KHdr:
		return contains(st.HeaderValues(k, n.Attr("name")), n.Attr("value"))
	case KHdrRe:
		// the value of the exchange's *request* header, for both kinds
		v := st.ReqH.Get(n.Attr("header"))
		return v != "" && compiled(n.Attr("regex")).MatchString(v)
	case KQS:
		vs, ok := st.QueryParams()[n.Attr("name")]
		if !ok {
			return false
		}
		return n.Attr("value") == "" || contains(vs, n.Attr("value"))
	case KMethod:
		return strings.EqualFold(n.Attr("method"), st.Method)
	case KCookie:
		cs := st.ReqCookies
		if k == Res {
			cs = st.ResCookies
		}
		for _, c := range cs {
			if c.N == n.Attr("name") && (n.Attr("value") == "" || n.Attr("value") == c.V) {
				return true
			}
		}
		return false
	case KPort:
		return st.Port() == n.AttrInt("port")
	}
	panic("cfgx: Cond on non-filter " + n.Kind)
}

// Run evaluates node n on the message of kind k and returns the messages of
// the errors reported (flattened, in evaluation order).
func (r *Ref) Run(n *Node, k Kind) []string {
	if !n.Scope.Has(k) || !Supports(n.Kind, k) {
		return nil // the node does not act on this kind of message
	}
	switch {
	case n.Kind == KFifo:
		return r.group(n, n.Kids, k)
	case n.Kind == KPrio:
		idx := make([]int, len(n.Kids))
		for i := range idx {
			idx[i] = i
		}
		sort.SliceStable(idx, func(a, b int) bool {
			pa, pb := n.Prio[idx[a]], n.Prio[idx[b]]
			if pa != pb {
				return pa > pb // descending priority
			}
			return idx[a] > idx[b] // later-listed first among equals
		})
		kids := make([]*Node, len(idx))
		for i, j := range idx {
			kids[i] = n.Kids[j]
		}
		return r.group(n, kids, k)
	case IsFilter(n.Kind):
		c := Cond(n, k, r.St)
		r.Conds = append(r.Conds, c)
		if c {
			return r.Run(n.Mod, k)
		}
		if n.Else != nil {
			return r.Run(n.Else, k)
		}
		return nil
	}
	// leaves
	h := r.St.H(k)
	switch n.Kind {
	case KProbe, KProbeReq, KProbeRes:
		stamp := n.Attr("id")
		if n.Attr("count") != "" {
			// a counting probe numbers the messages its instance has seen
			if r.Counts == nil {
				r.Counts = map[string]int{}
			}
			r.Counts[stamp]++
			stamp += "#" + strconv.Itoa(r.Counts[n.Attr("id")])
		}
		h.Add(TraceHeader, stamp)
		if n.ErrsOn(k) {
			if t := n.Attr("errText"); t != "" {
				return []string{t}
			}
			return []string{ProbeErrString(n.Attr("id"), k)}
		}
	case KHdrMod:
		h.Set(n.Attr("name"), n.Attr("value"))
	case KHdrApp:
		h.Add(n.Attr("name"), n.Attr("value"))
	case KHdrDel:
		h.Del(n.Attr("names"))
	case KStatusMod:
		r.St.Status = n.AttrInt("statusCode")
	case KURLMod:
		// the given parts of the request URL are replaced; later nodes, and the
		// response of the same exchange, see the rewritten URL
		if v := n.Attr("scheme"); v != "" {
			r.St.Scheme = v
		}
		if v := n.Attr("host"); v != "" {
			r.St.Host = v
		}
		if v := n.Attr("path"); v != "" {
			r.St.Path = v
		}
		if v := n.Attr("query"); v != "" {
			r.St.Query = v
		}
	case KNoop:
	default:
		if IsVerifier(n.Kind) {
			if r.OnVerifier != nil {
				r.OnVerifier(n, k, r.St)
			}
			return nil
		}
		panic("cfgx: unknown leaf " + n.Kind)
	}
	return nil
}

func (r *Ref) group(n *Node, kids []*Node, k Kind) []string {
	var errs []string
	for _, c := range kids {
		es := r.Run(c, k)
		if len(es) == 0 {
			continue
		}
		if !n.Agg {
			r.Stopped++
			return es // the first error stops the group
		}
		r.Aggregated += len(es)
		errs = append(errs, es...)
	}
	return errs
}
