package cfgx

import (
	"encoding/json"
	"fmt"
	"net/http"
	"strconv"
	"strings"
	"sync"
	"sync/atomic"

	"github.com/google/martian/v3/parse"
)

// TraceHeader is the append-only header written by probe leaves.
const TraceHeader = "X-Trace"

// ProbeErrPrefix starts the message of every error returned by a probe.
const ProbeErrPrefix = "probe-error:"

// ProbeError is the error a probe returns; it carries the probe id and the
// message kind.
type ProbeError struct {
	ID   string
	Kind Kind
	Text string // configured message (parameter errText): several probes may fail with the same text
}

func (e *ProbeError) Error() string {
	if e.Text != "" {
		return e.Text
	}
	return ProbeErrPrefix + e.ID + ":" + e.Kind.String()
}

// ProbeErrString is the message of the error probe id returns on kind k.
func ProbeErrString(id string, k Kind) string { return ProbeErrPrefix + id + ":" + k.String() }

type probe struct {
	id     string
	errReq bool
	errRes bool
	count  bool
	n      int64
	errTxt string
}

// stamp is what the probe appends to the trace: its id, and for a counting
// probe the number of messages this instance has seen so far (so that a fresh
// instance is distinguishable from one that has been running).
func (p *probe) stamp() string {
	if !p.count {
		return p.id
	}
	return p.id + "#" + strconv.FormatInt(atomic.AddInt64(&p.n, 1), 10)
}

func (p *probe) modifyRequest(req *http.Request) error {
	req.Header.Add(TraceHeader, p.stamp())
	if p.errReq {
		return &ProbeError{ID: p.id, Kind: Req, Text: p.errTxt}
	}
	return nil
}

func (p *probe) modifyResponse(res *http.Response) error {
	res.Header.Add(TraceHeader, p.stamp())
	if p.errRes {
		return &ProbeError{ID: p.id, Kind: Res, Text: p.errTxt}
	}
	return nil
}

// three method sets, so that parse.NewResult sees different supported scopes
type probeBoth struct{ p *probe }
type probeReq struct{ p *probe }
type probeRes struct{ p *probe }

func (x *probeBoth) ModifyRequest(r *http.Request) error   { return x.p.modifyRequest(r) }
func (x *probeBoth) ModifyResponse(r *http.Response) error { return x.p.modifyResponse(r) }
func (x *probeReq) ModifyRequest(r *http.Request) error    { return x.p.modifyRequest(r) }
func (x *probeRes) ModifyResponse(r *http.Response) error  { return x.p.modifyResponse(r) }

type probeJSON struct {
	ID    string               `json:"id"`
	ErrOn []string             `json:"errOn"`
	Count string               `json:"count"`
	ErrTx string               `json:"errText"`
	Scope []parse.ModifierType `json:"scope"`
}

var registerOnce sync.Once

// RegisterProbes registers the probe leaves with martian's parse package
// (public API) under verif.Probe, verif.ProbeReq and verif.ProbeRes.
func RegisterProbes() {
	registerOnce.Do(func() {
		mk := func(variant int) func([]byte) (*parse.Result, error) {
			return func(b []byte) (*parse.Result, error) {
				msg := &probeJSON{}
				if err := json.Unmarshal(b, msg); err != nil {
					return nil, err
				}
				p := &probe{id: msg.ID, count: msg.Count != "", errTxt: msg.ErrTx}
				for _, e := range msg.ErrOn {
					switch strings.ToLower(e) {
					case "request":
						p.errReq = true
					case "response":
						p.errRes = true
					default:
						return nil, fmt.Errorf("verif.Probe: bad errOn %q", e)
					}
				}
				var mod interface{}
				switch variant {
				case 0:
					mod = &probeBoth{p}
				case 1:
					mod = &probeReq{p}
				default:
					mod = &probeRes{p}
				}
				return parse.NewResult(mod, msg.Scope)
			}
		}
		parse.Register(KProbe, mk(0))
		parse.Register(KProbeReq, mk(1))
		parse.Register(KProbeRes, mk(2))
	})
}
