package cfgx

import (
	"io"
	"net/http"
	"net/url"
	"sort"
	"strings"
)

// Pair is a (name, value) pair.
type Pair struct {
	N string `json:"n"`
	V string `json:"v"`
}

// Msg is the abstract description of one exchange: the request and the
// origin's response, before any modifier ran. It is the "input" half of a
// case; the reference interpreter and the real messages are both derived from
// it.
type Msg struct {
	Method  string `json:"method"`
	Scheme  string `json:"scheme"`
	Host    string `json:"host"` // host[:port] as in the URL
	Path    string `json:"path"`
	Query   string `json:"query,omitempty"`
	ReqHdr  []Pair `json:"req_hdr,omitempty"`
	Cookies []Pair `json:"cookies,omitempty"` // request cookies
	Status  int    `json:"status"`
	ResHdr  []Pair `json:"res_hdr,omitempty"`
	SetCk   []Pair `json:"set_cookies,omitempty"` // response cookies
	API     bool   `json:"api,omitempty"`         // addressed to the proxy's own API (C13)
	// ReqChunked / ResChunked: the message has a (small) body sent with
	// Transfer-Encoding: chunked; net/http keeps that header outside the map.
	ReqChunked bool `json:"req_chunked,omitempty"`
	ResChunked bool `json:"res_chunked,omitempty"`
}

// ChunkBody is the body of chunked messages.
const ChunkBody = "hello"

// URL is the request URL as text.
func (m *Msg) URL() string {
	u := m.Scheme + "://" + m.Host + m.Path
	if m.Query != "" {
		u += "?" + m.Query
	}
	return u
}

// Request builds the real request.
func (m *Msg) Request() *http.Request {
	u := &url.URL{Scheme: m.Scheme, Host: m.Host, Path: m.Path, RawQuery: m.Query}
	req := &http.Request{
		Method: m.Method, URL: u, Proto: "HTTP/1.1", ProtoMajor: 1, ProtoMinor: 1,
		Header: http.Header{}, Body: http.NoBody, Host: m.Host,
	}
	for _, p := range m.ReqHdr {
		req.Header.Add(p.N, p.V)
	}
	if len(m.Cookies) > 0 {
		var cs []string
		for _, c := range m.Cookies {
			cs = append(cs, c.N+"="+c.V)
		}
		req.Header.Set("Cookie", strings.Join(cs, "; "))
	}
	if m.ReqChunked { // as http.ReadRequest delivers a chunked message
		req.Body = io.NopCloser(strings.NewReader(ChunkBody))
		req.ContentLength = -1
		req.TransferEncoding = []string{"chunked"}
	}
	return req
}

// Response builds the origin's response to req.
func (m *Msg) Response(req *http.Request) *http.Response {
	res := &http.Response{
		StatusCode: m.Status, Status: http.StatusText(m.Status), Proto: "HTTP/1.1", ProtoMajor: 1, ProtoMinor: 1,
		Header: http.Header{}, Body: http.NoBody, Request: req,
	}
	for _, p := range m.ResHdr {
		res.Header.Add(p.N, p.V)
	}
	for _, c := range m.SetCk {
		res.Header.Add("Set-Cookie", c.N+"="+c.V)
	}
	if m.ResChunked {
		res.Body = io.NopCloser(strings.NewReader(ChunkBody))
		res.ContentLength = -1
		res.TransferEncoding = []string{"chunked"}
	}
	return res
}

// State is the reference interpreter's view of an exchange while modifiers
// run: the request line (never changed by the leaves used), the mutable
// header maps and the status.
type State struct {
	Method, Scheme, Host, Path, Query string
	ReqH                              http.Header
	ReqCookies                        []Pair
	Status                            int
	ResH                              http.Header
	ResCookies                        []Pair
	// HostHdr is the request's Host header (req.Host); a modifier that rewrites the URL does not change it
	HostHdr    string
	API        bool
	ReqChunked bool
	ResChunked bool
}

// HeaderValues returns the values of header name on the message of kind k,
// including the headers net/http keeps outside the header map: Host (requests
// only: the request's host) and Transfer-Encoding.
func (s *State) HeaderValues(k Kind, name string) []string {
	switch http.CanonicalHeaderKey(name) {
	case "Host":
		if k == Req && s.HostHdr != "" {
			return []string{s.HostHdr}
		}
		return nil
	case "Transfer-Encoding":
		if (k == Req && s.ReqChunked) || (k == Res && s.ResChunked) {
			return []string{"chunked"}
		}
		return nil
	}
	return s.H(k)[http.CanonicalHeaderKey(name)]
}

// NewState derives the initial reference state from the abstract message
// (the same way Request/Response derive the real messages).
func NewState(m *Msg) *State {
	s := &State{Method: m.Method, Scheme: m.Scheme, Host: m.Host, Path: m.Path, Query: m.Query,
		ReqH: http.Header{}, ResH: http.Header{}, Status: m.Status, API: m.API,
		ReqChunked: m.ReqChunked, ResChunked: m.ResChunked, HostHdr: m.Host,
		ReqCookies: m.Cookies, ResCookies: m.SetCk}
	for _, p := range m.ReqHdr {
		s.ReqH.Add(p.N, p.V)
	}
	if len(m.Cookies) > 0 {
		var cs []string
		for _, c := range m.Cookies {
			cs = append(cs, c.N+"="+c.V)
		}
		s.ReqH.Set("Cookie", strings.Join(cs, "; "))
	}
	for _, p := range m.ResHdr {
		s.ResH.Add(p.N, p.V)
	}
	for _, c := range m.SetCk {
		s.ResH.Add("Set-Cookie", c.N+"="+c.V)
	}
	return s
}

// H returns the header map of message kind k.
func (s *State) H(k Kind) http.Header {
	if k == Req {
		return s.ReqH
	}
	return s.ResH
}

// URL is the request URL as text.
func (s *State) URL() string {
	u := s.Scheme + "://" + s.Host + s.Path
	if s.Query != "" {
		u += "?" + s.Query
	}
	return u
}

// QueryParams parses the raw query string into decoded name -> values
// (application/x-www-form-urlencoded: pairs separated by '&', name and value
// separated by the first '=', '+' is a space, %XX is a byte). Written here, not
// taken from martian or net/url.
func (s *State) QueryParams() map[string][]string {
	out := map[string][]string{}
	if s.Query == "" {
		return out
	}
	for _, kv := range strings.Split(s.Query, "&") {
		if kv == "" {
			continue
		}
		k, v := kv, ""
		if i := strings.IndexByte(kv, '='); i >= 0 {
			k, v = kv[:i], kv[i+1:]
		}
		k, v = unescapeQ(k), unescapeQ(v)
		out[k] = append(out[k], v)
	}
	return out
}

func unhex(c byte) byte {
	switch {
	case c >= '0' && c <= '9':
		return c - '0'
	case c >= 'a' && c <= 'f':
		return c - 'a' + 10
	case c >= 'A' && c <= 'F':
		return c - 'A' + 10
	}
	return 0
}

func unescapeQ(s string) string {
	if !strings.ContainsAny(s, "%+") {
		return s
	}
	b := make([]byte, 0, len(s))
	for i := 0; i < len(s); i++ {
		switch {
		case s[i] == '+':
			b = append(b, ' ')
		case s[i] == '%' && i+2 < len(s):
			b = append(b, unhex(s[i+1])<<4|unhex(s[i+2]))
			i += 2
		default:
			b = append(b, s[i])
		}
	}
	return string(b)
}

// Port is the effective port of the request URL.
func (s *State) Port() int {
	if i := strings.LastIndexByte(s.Host, ':'); i >= 0 {
		p := 0
		for _, c := range s.Host[i+1:] {
			p = p*10 + int(c-'0')
		}
		return p
	}
	switch s.Scheme {
	case "http":
		return 80
	case "https":
		return 443
	}
	return 0
}

// HeaderString renders a header map canonically for comparison / display.
func HeaderString(h http.Header) string {
	ks := make([]string, 0, len(h))
	for k, vs := range h {
		if len(vs) == 0 {
			continue
		}
		ks = append(ks, k)
	}
	sort.Strings(ks)
	var sb strings.Builder
	for _, k := range ks {
		sb.WriteString(k)
		sb.WriteString("=[")
		sb.WriteString(strings.Join(h[k], "|"))
		sb.WriteString("] ")
	}
	return sb.String()
}
