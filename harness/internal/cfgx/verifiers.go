package cfgx

import (
	"math/rand"
	"strconv"
	"strings"
)

// Verifier trees for C13: fifo.Group and the filter.Filter-based filters
// (url, url-regex, header, querystring, method, cookie — the node types whose
// verify walk martian implements), with verifier leaves. Every verifier gets
// a distinct expectation whose distinguishing string (its token) appears in
// each of its error messages; every request carries a distinct token in its
// URL, so an error message identifies (verifier, request).

// VFilterKinds are the filters usable above verifiers.
var VFilterKinds = []string{KURL, KURLRe, KHdr, KQS, KMethod, KCookie}

// VKinds are the verifier leaf kinds.
var VKinds = []string{KVStatus, KVHeader, KVMethod, KVURL, KVQS, KVFailure, KVPingback}

func letters(i int) string {
	return string([]byte{byte('a' + (i/26)%26), byte('a' + i%26)})
}

// VTok is the distinguishing string of verifier n (part of every error
// message it produces).
func VTok(n *Node) string {
	switch n.Kind {
	case KVStatus:
		return n.Attr("statusCode")
	case KVHeader, KVQS:
		return n.Attr("name")
	case KVMethod:
		return n.Attr("method")
	case KVURL:
		if h := n.Attr("host"); h != "" {
			return h
		}
		return n.Attr("path")
	case KVFailure:
		return n.Attr("message")
	case KVPingback:
		return n.Attr("path")
	}
	return ""
}

// ReqTok is the token of request number i (unique, fixed width, disjoint
// alphabet from verifier tokens).
func ReqTok(i int) string {
	b := []byte("zq000000z")
	for p := 7; p >= 2; p-- {
		b[p] = byte('a' + i%10)
		i /= 10
	}
	return string(b)
}

// Unmet reports whether verifier n's expectation is not met by the message of
// kind k (st is the exchange). Written from the verifiers' documentation:
// status: the response status equals statusCode; header: the message has the
// header (and the value, if given); method: the request method equals;
// url: every given URL part equals; querystring: the parameter is present
// (and has the value, if given); failure: never met.
func Unmet(n *Node, k Kind, st *State) bool {
	switch n.Kind {
	case KVStatus:
		return st.Status != n.AttrInt("statusCode")
	case KVHeader:
		vs := st.HeaderValues(k, n.Attr("name"))
		if len(vs) == 0 {
			return true
		}
		return n.Attr("value") != "" && !contains(vs, n.Attr("value"))
	case KVMethod:
		return st.Method != n.Attr("method")
	case KVURL:
		return !urlPartsMatch(n, st)
	case KVQS:
		if Malformed(st.Query) {
			return true // the query string cannot be parsed: the parameter cannot be verified
		}
		vs, ok := st.QueryParams()[n.Attr("name")]
		if !ok {
			return true
		}
		return n.Attr("value") != "" && !contains(vs, n.Attr("value"))
	case KVFailure:
		return true
	}
	panic("cfgx: Unmet on " + n.Kind)
}

func urlPartsMatch(n *Node, st *State) bool {
	if v := n.Attr("scheme"); v != "" && v != st.Scheme {
		return false
	}
	if v := n.Attr("host"); v != "" && v != st.Host {
		return false
	}
	if v := n.Attr("path"); v != "" && v != st.Path {
		return false
	}
	if v := n.Attr("query"); v != "" && v != st.Query {
		return false
	}
	return true
}

// PingHit reports whether the request is the one pingback verifier n waits for.
func PingHit(n *Node, st *State) bool { return urlPartsMatch(n, st) }

// VGenOpts bounds the verifier-tree generator.
type VGenOpts struct {
	MaxDepth int    // levels including the verifier leaf
	MaxWidth int    // group children
	Scopes   bool   // draw scopes (otherwise all absent)
	Top      string // "" random, "group", "filter", "verifier"
	NoPing   bool
}

type vgen struct {
	rng  *rand.Rand
	o    VGenOpts
	nv   int
	nsts int

	schemeUsed bool
	pseudo     map[string]bool
}

// GenVTree draws a verifier-bearing tree.
func GenVTree(rng *rand.Rand, o VGenOpts) *Node {
	g := &vgen{rng: rng, o: o, pseudo: map[string]bool{}}
	var t *Node
	switch o.Top {
	case "group":
		t = g.group(o.MaxDepth)
	case "filter":
		t = g.filter(o.MaxDepth)
	case "verifier":
		t = g.verifier()
	default:
		d := 1 + rng.Intn(o.MaxDepth)
		if rng.Intn(3) != 0 && o.MaxDepth > 2 {
			d = o.MaxDepth - rng.Intn(2)
		}
		t = g.node(d, true)
	}
	return t
}

func (g *vgen) scope(kind string) Scope {
	if !g.o.Scopes || g.rng.Intn(100) < 65 {
		return ScAbsent
	}
	s := []Scope{ScReq, ScRes, ScBoth, ScNone, ScReq, ScRes}[g.rng.Intn(6)]
	if (!Supports(kind, Req) && s.Has(Req)) || (!Supports(kind, Res) && s.Has(Res)) {
		if Supports(kind, Req) {
			return ScReq
		}
		return ScRes
	}
	return s
}

func (g *vgen) verifier() *Node {
	i := g.nv
	g.nv++
	tok := "vk" + letters(i) + "k"
	n := &Node{A: map[string]string{}}
	kinds := VKinds
	if g.o.NoPing {
		kinds = VKinds[:len(VKinds)-1]
	}
	n.Kind = kinds[g.rng.Intn(len(kinds))]
	// the header verifier is the only one with two sides: draw it more often
	if g.rng.Intn(4) == 0 {
		n.Kind = KVHeader
	}
	switch n.Kind {
	case KVStatus:
		n.A["statusCode"] = strconv.Itoa(520 + g.nsts)
		g.nsts++
	case KVHeader:
		n.A["name"] = "X-V" + tok[1:]
		if g.rng.Intn(2) == 0 {
			n.A["value"] = "w1"
		}
		// headers net/http keeps outside the header map; the name is the token,
		// so each at most once per tree
		if x := g.rng.Intn(12); x == 0 && !g.pseudo["Host"] {
			g.pseudo["Host"] = true
			n.A["name"] = "Host"
			delete(n.A, "value")
			if g.rng.Intn(4) != 0 {
				n.A["value"] = Hosts[g.rng.Intn(len(Hosts))]
			}
		} else if x == 1 && !g.pseudo["Transfer-Encoding"] {
			g.pseudo["Transfer-Encoding"] = true
			n.A["name"] = "Transfer-Encoding"
			delete(n.A, "value")
			if g.rng.Intn(2) == 0 {
				n.A["value"] = "chunked"
			}
		}
	case KVMethod:
		n.A["method"] = "M" + tok
	case KVURL:
		if g.rng.Intn(2) == 0 {
			n.A["host"] = tok + ".example.org"
		} else {
			n.A["path"] = "/want-" + tok
		}
		// at most one url verifier per tree also expects a scheme: a scheme-only
		// mismatch message carries no verifier token outside the request URL
		if !g.schemeUsed && g.rng.Intn(2) == 0 {
			g.schemeUsed = true
			n.A["scheme"] = Schemes[g.rng.Intn(len(Schemes))]
		}
	case KVQS:
		n.A["name"] = "q" + tok
		if g.rng.Intn(2) == 0 {
			n.A["value"] = "w1"
		}
	case KVFailure:
		n.A["message"] = "fail-" + tok
	case KVPingback:
		n.A["path"] = "/ping-" + tok
	}
	n.Scope = g.scope(n.Kind)
	return n
}

func (g *vgen) leaf() *Node {
	x := g.rng.Intn(100)
	if x < 82 {
		return g.verifier()
	}
	n := &Node{Kind: KNoop, A: map[string]string{"name": "n"}}
	if x < 94 {
		n = &Node{Kind: KProbe, A: map[string]string{"id": "pr" + strconv.Itoa(g.nv)}}
		if x < 90 {
			// a sibling modifier that fails: it stops a non-aggregating group (the verifiers
			// listed after it are not evaluated), an aggregating one goes on
			n.ErrOn = [][]Kind{{Req}, {Res}, {Req, Res}}[g.rng.Intn(3)]
		}
	}
	n.Scope = g.scope(n.Kind)
	return n
}

func (g *vgen) group(rem int) *Node {
	n := &Node{Kind: KFifo, A: map[string]string{}, Agg: g.rng.Intn(3) == 0}
	n.Scope = g.scope(n.Kind)
	w := 1 + g.rng.Intn(g.o.MaxWidth)
	for i := 0; i < w; i++ {
		n.Kids = append(n.Kids, g.node(rem-1, false))
	}
	return n
}

func (g *vgen) filter(rem int) *Node {
	n := &Node{Kind: VFilterKinds[g.rng.Intn(len(VFilterKinds))], A: map[string]string{}}
	n.Scope = g.scope(n.Kind)
	fg := &gen{rng: g.rng}
	fg.filterParams(n)
	delete(n.A, "query") // request URLs carry a unique token in the query
	if n.Kind == KURL && len(n.A) == 0 {
		n.A["path"] = Paths[g.rng.Intn(len(Paths))]
	}
	n.Mod = g.node(rem-1, false)
	if g.rng.Intn(100) < 75 {
		n.Else = g.node(rem-1, false)
	}
	return n
}

func (g *vgen) node(rem int, root bool) *Node {
	if rem <= 1 {
		return g.leaf()
	}
	x := g.rng.Intn(100)
	switch {
	case !root && x < 25:
		return g.leaf()
	case x < 55:
		return g.group(rem)
	default:
		return g.filter(rem)
	}
}

// Verifiers lists the verifier nodes of a tree in pre-order.
func Verifiers(t *Node) []*Node {
	var vs []*Node
	t.Walk(func(n *Node, _ int) {
		if IsVerifier(n.Kind) {
			vs = append(vs, n)
		}
	})
	return vs
}

// Meet changes m so that it meets verifier v's expectation (as far as one
// message can).
func Meet(v *Node, m *Msg) {
	switch v.Kind {
	case KVStatus:
		m.Status = v.AttrInt("statusCode")
	case KVHeader:
		switch v.Attr("name") {
		case "Host":
			if h := v.Attr("value"); h != "" {
				m.Host = h
			}
			return
		case "Transfer-Encoding":
			m.ReqChunked, m.ResChunked = true, true
			return
		}
		val := v.Attr("value")
		if val == "" {
			val = "any"
		}
		m.ReqHdr = append(m.ReqHdr, Pair{v.Attr("name"), val})
		m.ResHdr = append(m.ResHdr, Pair{v.Attr("name"), val})
	case KVMethod:
		m.Method = v.Attr("method")
	case KVURL:
		if sc := v.Attr("scheme"); sc != "" {
			m.Scheme = sc
		}
		if h := v.Attr("host"); h != "" {
			m.Host = h
		}
		if p := v.Attr("path"); p != "" {
			m.Path = p
		}
	case KVQS:
		val := v.Attr("value")
		if val == "" {
			val = "any"
		}
		m.Query += "&" + v.Attr("name") + "=" + val
	case KVPingback:
		m.Path = v.Attr("path")
	}
}

// HalfMeet makes m carry the verifier's header / parameter with another value
// or only on one side (the "wrong value" way of not meeting it).
func HalfMeet(rng *rand.Rand, v *Node, m *Msg) {
	val := "other"
	if rng.Intn(3) == 0 {
		val = "" // present but blank
	}
	switch v.Kind {
	case KVHeader:
		switch v.Attr("name") {
		case "Host":
			return
		case "Transfer-Encoding": // on one side only
			if rng.Intn(2) == 0 {
				m.ReqChunked = true
			} else {
				m.ResChunked = true
			}
			return
		}
		p := Pair{v.Attr("name"), val}
		switch rng.Intn(3) {
		case 0:
			m.ReqHdr = append(m.ReqHdr, p)
		case 1:
			m.ResHdr = append(m.ResHdr, p)
		default:
			m.ReqHdr = append(m.ReqHdr, p)
			m.ResHdr = append(m.ResHdr, p)
		}
	case KVQS:
		m.Query += "&" + v.Attr("name") + "=" + val
	}
}

// GenTraffic draws exchange number i for verifier tree t: filter conditions
// steered at random, a random subset of the verifiers met. The request token
// goes into the query string.
func GenTraffic(rng *rand.Rand, t *Node, i int) *Msg { return GenTrafficBias(rng, t, i, 0) }

// GenTrafficBias is GenTraffic with missBias percent of the verifiers left
// unmet outright (long histories that pile up failures).
func GenTrafficBias(rng *rand.Rand, t *Node, i int, missBias int) *Msg {
	m := RandMsg(rng)
	m.Query = "t=" + ReqTok(i)
	if rng.Intn(3) == 0 {
		m.Query += "&" + Queries[1+rng.Intn(len(Queries)-1)]
	}
	for _, f := range Filters(t) {
		if rng.Intn(2) == 0 {
			w := &Msg{}
			*w = *m
			Wish(rng, f, w)
			w.Query = m.Query // keep the token
			if f.Kind == KQS {
				v := f.Attr("value")
				if v == "" {
					v = "v0"
				}
				w.Query += "&" + EncQ(rng, f.Attr("name")) + "=" + EncQ(rng, v)
			}
			*m = *w
		}
	}
	// a share of the exchanges carries a query string that net/url cannot parse completely
	// (the offending pair has a name nobody looks at); a querystring verifier cannot be met
	// by such a request, so the generator does not try to (whether a parameter that did parse
	// would count is not something the statement decides)
	malformed := rng.Intn(10) == 0
	if malformed {
		m.Query += "&" + MalformedPairs[rng.Intn(len(MalformedPairs))]
	}
	for _, v := range Verifiers(t) {
		x := rng.Intn(4)
		if missBias > 0 && rng.Intn(100) < missBias {
			x = 3
		}
		if malformed && v.Kind == KVQS && x < 2 {
			x = 2
		}
		if malformed && v.Kind == KVQS && v.Attr("value") == "" {
			x = 3 // any value would do for this verifier: leave the parameter out altogether
		}
		switch x {
		case 0, 1:
			Meet(v, m)
		case 2:
			HalfMeet(rng, v, m)
		}
	}
	return m
}

// GenAPI draws exchange number i addressed to the proxy's own API (host,
// path). It is drawn from the same distribution as ordinary traffic with
// respect to everything filters and verifiers look at (headers present with
// matching / other / blank values or absent on either side, cookies, query
// parameters, method unless fixed) and then given the URL an API request must
// have.
func GenAPI(rng *rand.Rand, t *Node, i int, host, path, method string, fixedMethod bool) *Msg {
	m := GenTraffic(rng, t, i)
	m.API = true
	m.Scheme, m.Host, m.Path, m.Status = "http", host, path, 200
	if fixedMethod || rng.Intn(2) == 0 {
		m.Method = method
	}
	return m
}

// FailPath names the way verifier n's expectation fails for the message of
// kind k ("" = met): which failure path of the verifier an evaluation takes.
func FailPath(n *Node, k Kind, st *State) string {
	switch n.Kind {
	case KVStatus:
		if st.Status != n.AttrInt("statusCode") {
			return "status-differs"
		}
	case KVHeader:
		vs := st.HeaderValues(k, n.Attr("name"))
		switch {
		case len(vs) == 0:
			return "header-missing"
		case n.Attr("value") == "" || contains(vs, n.Attr("value")):
			return ""
		case contains(vs, ""):
			return "value-blank"
		}
		return "value-differs"
	case KVMethod:
		if st.Method != n.Attr("method") {
			return "method-differs"
		}
	case KVURL:
		var parts []string
		if v := n.Attr("scheme"); v != "" && v != st.Scheme {
			parts = append(parts, "scheme")
		}
		if v := n.Attr("host"); v != "" && v != st.Host {
			parts = append(parts, "host")
		}
		if v := n.Attr("path"); v != "" && v != st.Path {
			parts = append(parts, "path")
		}
		if len(parts) > 0 {
			return strings.Join(parts, "+") + "-differs"
		}
	case KVQS:
		vs, ok := st.QueryParams()[n.Attr("name")]
		switch {
		case Malformed(st.Query):
			return "query-malformed"
		case !ok:
			return "key-missing"
		case n.Attr("value") == "" || contains(vs, n.Attr("value")):
			return ""
		case contains(vs, ""):
			return "value-blank"
		}
		return "value-differs"
	case KVFailure:
		return "always"
	case KVPingback:
		if PingHit(n, st) {
			return "hit"
		}
		return "miss"
	}
	return ""
}
