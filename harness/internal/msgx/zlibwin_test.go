package msgx

import (
	"bytes"
	"compress/zlib"
	"io"
	"testing"
)

func TestEncodeZlibWindow(t *testing.T) {
	for _, n := range []int{0, 1, 100, 300, 5000, 70000} {
		p := bytes.Repeat([]byte("abcdefg\x00\xff"), n/9+1)[:n]
		for ci := 0; ci < 8; ci++ {
			for fl := 0; fl < 4; fl++ {
				b := EncodeZlibWindow(p, ci, fl)
				if (int(b[0])<<8|int(b[1]))%31 != 0 || b[1]&0x20 != 0 {
					t.Fatalf("bad header %x %x", b[0], b[1])
				}
				zr, err := zlib.NewReader(bytes.NewReader(b))
				if err != nil {
					t.Fatalf("n=%d ci=%d fl=%d hdr=%x%x: %v", n, ci, fl, b[0], b[1], err)
				}
				out, err := io.ReadAll(zr)
				if err != nil || !bytes.Equal(out, p) {
					t.Fatalf("n=%d ci=%d: %v", n, ci, err)
				}
			}
		}
	}
}
