package msgx

import (
	"bufio"
	"errors"
	"fmt"
	"net"
	"net/http"
	"strings"
	"sync"
	"sync/atomic"
	"time"

	"github.com/google/martian/v3"

	"verifharness/internal/vh"
)

// Rig is a martian.Proxy served on an in-memory listener whose upstream
// dials land on a scripted in-memory origin. Exchanges are identified by a
// key carried in the request path ("/k/<key>/...").
type Rig struct {
	P  *martian.Proxy
	L  *vh.PipeListener
	mu sync.Mutex
	sc map[string]*script

	dials     int64
	originRx  int64
	originTx  int64
	closeOnce sync.Once
	conns     []net.Conn
}

type script struct {
	resp      []byte
	closeConn bool // close the origin connection after the response (close-delimited / HTTP/1.0)
	got       []*Parsed
	gotErr    error
	done      chan struct{}
}

// Result is what the harness endpoints observed for one exchange.
type Result struct {
	OriginReqs []*Parsed // requests the origin received for this key (0 when none was sent upstream)
	OriginErr  error     // origin-side parse failure
	Client     *Parsed   // response as received by the client
	ClientErr  error
}

// ErrWatchdog marks an exchange that did not finish within the watchdog.
var ErrWatchdog = errors.New("rig watchdog fired")

// StuckError reports an exchange that cannot complete: the client is still
// waiting for its response while the whole system is quiescent.
type StuckError struct{ Fingerprint string }

func (e *StuckError) Error() string {
	return "exchange stuck: client still waits for the response and nothing moves any more"
}

// NewRig builds and starts a proxy; setup installs modifiers.
func NewRig(setup func(p *martian.Proxy)) *Rig {
	g := &Rig{P: martian.NewProxy(), L: vh.NewPipeListener("10.1.1.1:8080", 1<<16), sc: map[string]*script{}}
	g.P.SetTimeout(10 * time.Minute)
	g.P.SetDial(func(network, addr string) (net.Conn, error) {
		atomic.AddInt64(&g.dials, 1)
		a, b := vh.Pipe(1<<16, "10.1.1.1:40000", addr)
		g.mu.Lock()
		g.conns = append(g.conns, b)
		g.mu.Unlock()
		go g.serveOrigin(b)
		return a, nil
	})
	if setup != nil {
		setup(g.P)
	}
	go g.P.Serve(g.L)
	return g
}

// Close shuts the rig down.
func (g *Rig) Close() {
	g.closeOnce.Do(func() {
		g.L.Close()
		if t, ok := g.P.GetRoundTripper().(*http.Transport); ok {
			t.CloseIdleConnections()
		}
		g.mu.Lock()
		for _, c := range g.conns {
			c.Close()
		}
		g.conns = nil
		g.mu.Unlock()
		done := make(chan struct{})
		go func() { g.P.Close(); close(done) }()
		select {
		case <-done:
		case <-time.After(20 * time.Second):
		}
	})
}

// Activity is a progress fingerprint of the harness endpoints.
func (g *Rig) Activity() string {
	return fmt.Sprintf("d%d rx%d tx%d", atomic.LoadInt64(&g.dials), atomic.LoadInt64(&g.originRx), atomic.LoadInt64(&g.originTx))
}

// KeyOf extracts the exchange key from a request target.
func KeyOf(target string) string {
	i := strings.Index(target, "/k/")
	if i < 0 {
		return ""
	}
	rest := target[i+3:]
	if j := strings.IndexAny(rest, "/?# "); j >= 0 {
		rest = rest[:j]
	}
	return rest
}

func (g *Rig) serveOrigin(c net.Conn) {
	defer c.Close()
	br := bufio.NewReaderSize(c, 8192)
	for {
		p, err := ReadMessage(br, false, "")
		if err == ErrNoMessage || (p == nil && err != nil) {
			return
		}
		atomic.AddInt64(&g.originRx, int64(len(p.Raw)))
		key := KeyOf(p.Target)
		g.mu.Lock()
		s := g.sc[key]
		g.mu.Unlock()
		if s == nil {
			// unknown exchange: answer 500 so that nothing hangs
			c.Write([]byte("HTTP/1.1 500 no script\r\nContent-Length: 0\r\nConnection: close\r\n\r\n"))
			return
		}
		g.mu.Lock()
		s.got = append(s.got, p)
		if err != nil {
			s.gotErr = err
		}
		g.mu.Unlock()
		if err != nil {
			return
		}
		n, _ := c.Write(s.resp)
		atomic.AddInt64(&g.originTx, int64(n))
		if s.closeConn {
			return
		}
	}
}

// Do runs one exchange: the client writes reqWire verbatim on a fresh
// connection to the proxy and reads one response; the origin answers the
// request carrying key with respWire. closeOrigin closes the origin
// connection after the response.
func (g *Rig) Do(key string, reqWire []byte, reqMethod string, respWire []byte, closeOrigin bool, watchdog time.Duration) (*Result, error) {
	s := &script{resp: respWire, closeConn: closeOrigin, done: make(chan struct{})}
	g.mu.Lock()
	g.sc[key] = s
	g.mu.Unlock()
	defer func() {
		g.mu.Lock()
		delete(g.sc, key)
		g.mu.Unlock()
	}()
	cl, err := g.L.Dial()
	if err != nil {
		return nil, err
	}
	defer cl.Close()
	res := &Result{}
	fin := make(chan struct{})
	go func() {
		defer close(fin)
		go func() {
			cl.Write(reqWire)
		}()
		br := bufio.NewReaderSize(cl, 8192)
		res.Client, res.ClientErr = ReadMessage(br, true, reqMethod)
	}()
	done := func() bool {
		select {
		case <-fin:
			return true
		default:
			return false
		}
	}
	// Completion is decided by quiescence, not by a deadline: Stuck means the
	// response is incomplete and every martian goroutine is parked with no byte
	// moving at any harness endpoint.
	out, fp := vh.Happened, ""
	select {
	case <-fin: // fast path
	case <-time.After(2 * time.Second):
		out, fp = vh.Await(done, vh.AwaitOpts{Watchdog: watchdog, Activity: func() string {
			return fmt.Sprintf("%s c%d/%d", g.Activity(), cl.Sent(), cl.Received())
		}})
	}
	if out != vh.Happened {
		cl.Close()
		<-fin
		if out == vh.Stuck {
			return nil, &StuckError{Fingerprint: fp}
		}
		return nil, ErrWatchdog
	}
	g.mu.Lock()
	res.OriginReqs = s.got
	res.OriginErr = s.gotErr
	g.mu.Unlock()
	return res, nil
}
