package msgx

import (
	"bufio"
	"bytes"
	"errors"
	"fmt"
	"io"
	"strconv"
	"strings"
)

// Parsed is an HTTP/1 message as read by the harness parser (no net/http).
type Parsed struct {
	Resp      bool
	StartLine string
	Method    string
	Target    string
	Proto     string
	Status    int
	Reason    string
	Headers   []Field // as written, values OWS-trimmed
	Framing   string  // none | cl | chunked | close
	CL        int64
	NChunks   int
	Body      []byte // de-chunked
	Trailers  []Field
	Head      []byte // start line + header section + blank line, verbatim
	Raw       []byte // every byte of the message, verbatim
}

type recReader struct {
	br  *bufio.Reader
	rec bytes.Buffer
}

func (r *recReader) line() (string, error) {
	var sb []byte
	for {
		frag, err := r.br.ReadSlice('\n')
		sb = append(sb, frag...)
		r.rec.Write(frag)
		if err == bufio.ErrBufferFull {
			continue
		}
		if err != nil {
			if err == io.EOF {
				if len(sb) == 0 {
					return "", io.EOF
				}
				return "", fmt.Errorf("unexpected EOF inside a line (%s)", Excerpt(sb, 60))
			}
			return "", err
		}
		break
	}
	if len(sb) < 2 || sb[len(sb)-2] != '\r' {
		return "", fmt.Errorf("line not terminated by CRLF (%s)", Excerpt(sb, 60))
	}
	return string(sb[:len(sb)-2]), nil
}

func (r *recReader) full(n int64) ([]byte, error) {
	b := make([]byte, n)
	k, err := io.ReadFull(r.br, b)
	r.rec.Write(b[:k])
	if err != nil {
		return b[:k], fmt.Errorf("body ends after %d of %d bytes: %v", k, n, err)
	}
	return b, nil
}

func isToken(s string) bool {
	if s == "" {
		return false
	}
	for i := 0; i < len(s); i++ {
		c := s[i]
		if c <= ' ' || c >= 0x7f || strings.IndexByte("()<>@,;:\\\"/[]?={}", c) >= 0 {
			return false
		}
	}
	return true
}

func (r *recReader) fields(what string) ([]Field, error) {
	var fs []Field
	for {
		l, err := r.line()
		if err != nil {
			if err == io.EOF {
				return fs, fmt.Errorf("unexpected EOF in %s (no terminating empty line)", what)
			}
			return fs, fmt.Errorf("%s: %v", what, err)
		}
		if l == "" {
			return fs, nil
		}
		i := strings.IndexByte(l, ':')
		if i <= 0 || !isToken(l[:i]) {
			return fs, fmt.Errorf("%s: malformed field line %s", what, Excerpt([]byte(l), 80))
		}
		fs = append(fs, Field{Name: l[:i], Value: TrimOWS(l[i+1:])})
	}
}

// ErrNoMessage is returned when the stream ends cleanly before a message.
var ErrNoMessage = errors.New("no message (EOF)")

// ReadMessage reads one message from br. reqMethod is the method of the
// request a response answers (decides HEAD). The raw bytes consumed are in
// Parsed.Raw even when an error is returned.
func ReadMessage(br *bufio.Reader, resp bool, reqMethod string) (*Parsed, error) {
	r := &recReader{br: br}
	p := &Parsed{Resp: resp, CL: -1}
	fail := func(err error) (*Parsed, error) {
		p.Raw = append([]byte(nil), r.rec.Bytes()...)
		return p, err
	}
	l, err := r.line()
	if err != nil {
		if err == io.EOF {
			return nil, ErrNoMessage
		}
		return fail(fmt.Errorf("start line: %v", err))
	}
	p.StartLine = l
	if resp {
		parts := strings.SplitN(l, " ", 3)
		if len(parts) < 2 || !strings.HasPrefix(parts[0], "HTTP/") {
			return fail(fmt.Errorf("malformed status line %s", Excerpt([]byte(l), 80)))
		}
		p.Proto = parts[0]
		st, err := strconv.Atoi(parts[1])
		if err != nil || len(parts[1]) != 3 {
			return fail(fmt.Errorf("malformed status code in %s", Excerpt([]byte(l), 80)))
		}
		p.Status = st
		if len(parts) == 3 {
			p.Reason = parts[2]
		}
	} else {
		parts := strings.Split(l, " ")
		if len(parts) != 3 || !strings.HasPrefix(parts[2], "HTTP/") || !isToken(parts[0]) {
			return fail(fmt.Errorf("malformed request line %s", Excerpt([]byte(l), 80)))
		}
		p.Method, p.Target, p.Proto = parts[0], parts[1], parts[2]
	}
	p.Headers, err = r.fields("header section")
	p.Head = append([]byte(nil), r.rec.Bytes()...)
	if err != nil {
		return fail(err)
	}

	// message body length, RFC 7230 section 3.3.3
	te := ListElems(Get(p.Headers, "Transfer-Encoding"))
	cls := ListElems(Get(p.Headers, "Content-Length"))
	noBody := resp && (reqMethod == "HEAD" || p.Status/100 == 1 || p.Status == 204 || p.Status == 304)
	chunked := len(te) > 0 && strings.EqualFold(te[len(te)-1], "chunked")
	if len(cls) > 0 {
		for _, c := range cls[1:] {
			if c != cls[0] {
				return fail(fmt.Errorf("conflicting Content-Length values %q", cls))
			}
		}
		n, err := strconv.ParseInt(cls[0], 10, 64)
		if err != nil || n < 0 {
			return fail(fmt.Errorf("bad Content-Length %q", cls[0]))
		}
		p.CL = n
	}
	switch {
	case noBody:
		p.Framing = "none"
		if chunked {
			p.Framing = "chunked"
		} else if p.CL >= 0 {
			p.Framing = "cl"
		}
		p.Raw = append([]byte(nil), r.rec.Bytes()...)
		return p, nil
	case chunked:
		p.Framing = "chunked"
		for {
			l, err := r.line()
			if err != nil {
				return fail(fmt.Errorf("chunk size line: %v", err))
			}
			if i := strings.IndexByte(l, ';'); i >= 0 {
				l = l[:i]
			}
			n, err := strconv.ParseInt(strings.TrimSpace(l), 16, 64)
			if err != nil || n < 0 {
				return fail(fmt.Errorf("bad chunk size %s", Excerpt([]byte(l), 40)))
			}
			if n == 0 {
				break
			}
			p.NChunks++
			d, err := r.full(n)
			p.Body = append(p.Body, d...)
			if err != nil {
				return fail(fmt.Errorf("chunk data: %v", err))
			}
			crlf, err := r.full(2)
			if err != nil || string(crlf) != "\r\n" {
				return fail(fmt.Errorf("chunk data not followed by CRLF"))
			}
		}
		p.Trailers, err = r.fields("trailer section")
		if err != nil {
			return fail(err)
		}
	case len(te) > 0:
		if !resp {
			return fail(fmt.Errorf("request Transfer-Encoding %q does not end in chunked", te))
		}
		p.Framing = "close"
	case p.CL >= 0:
		p.Framing = "cl"
		p.Body, err = r.full(p.CL)
		if err != nil {
			return fail(err)
		}
	case !resp:
		p.Framing = "none"
	default:
		p.Framing = "close"
	}
	if p.Framing == "close" {
		d, err := io.ReadAll(r.br)
		r.rec.Write(d)
		p.Body = d
		if err != nil {
			return fail(fmt.Errorf("close-delimited body: %v", err))
		}
	}
	p.Raw = append([]byte(nil), r.rec.Bytes()...)
	return p, nil
}

// ParsePrefix parses one message from the start of b and returns the bytes
// that follow it.
func ParsePrefix(b []byte, resp bool, reqMethod string) (*Parsed, []byte, error) {
	br := bufio.NewReaderSize(bytes.NewReader(b), 4096)
	p, err := ReadMessage(br, resp, reqMethod)
	if err != nil {
		return p, nil, err
	}
	rest, _ := io.ReadAll(br)
	return p, rest, nil
}

// Parse parses exactly one message from b; trailing bytes are an error.
func Parse(b []byte, resp bool, reqMethod string) (*Parsed, error) {
	p, rest, err := ParsePrefix(b, resp, reqMethod)
	if err != nil {
		return p, err
	}
	if len(rest) > 0 {
		return p, fmt.Errorf("%d bytes after the end of the message (%s)", len(rest), Excerpt(rest, 60))
	}
	return p, nil
}
