// Package msgx holds what the C14, C15 and C16 checks share: a structured
// HTTP/1 message description ("spec") drawn by a generator, a renderer from
// the spec to wire bytes, an HTTP/1 message parser that is independent of
// net/http (so expectations and observations never go through the code under
// test), comparison helpers and an in-memory proxy rig.
package msgx

import (
	"bytes"
	"fmt"
	"strconv"
	"strings"
)

// Field is one header (or trailer) line: name as written, value as written.
type Field struct {
	Name  string `json:"n"`
	Value string `json:"v"`
}

// CookieSpec is a Set-Cookie line drawn by the generator.
type CookieSpec struct {
	Name, Value, Path, Domain string
	Expires                   string // RFC 3339 (UTC) of the Expires attribute, "" if none
	HTTPOnly, Secure          bool
}

// PartSpec is one part of a multipart/form-data body.
type PartSpec struct {
	Name, Filename, ContentType string
	Value                       []byte
}

// Spec is the structured description of one HTTP/1 message. Headers holds
// every header line that goes on the wire, in order, including the framing
// lines; the other fields are the semantic facts the lines were rendered
// from, and are what oracles take their expectations from.
type Spec struct {
	Resp       bool
	Method     string // request method; for a response, the method of the request it answers
	Target     string // request-target as written
	Scheme     string
	Host       string
	Path       string // escaped path as written
	RawQuery   string
	HasQuery   bool
	BadQuery   bool   // the query contains a pair with a malformed percent-escape
	Proto      string // "HTTP/1.1" | "HTTP/1.0"
	Status     int
	Reason     string
	Headers    []Field
	Framing    string // "none" | "cl" | "chunked" | "close"
	NoWire     bool   // HEAD response / 204 / 304 / 1xx: framing headers may be present but no body bytes follow
	Body       []byte // entity body as transferred: after content coding, before chunking
	Payload    []byte // the body with the content coding removed (== Body when Coding is not decodable)
	Coding     string // Content-Encoding value as written ("" = header absent)
	CodingKind string // "", "gzip", "deflate" (raw RFC 1951), "zlib" (RFC 1950 under the name deflate), "unknown"
	Members    int    // gzip members the body consists of (0 = not compressed)
	Chunks     []int  // chunk sizes, sum == len(Body)
	ChunkExt   bool
	Trailers   []Field
	Declared   bool   // a Trailer: header line declares the trailer names
	CType      string // Content-Type value ("" = absent)
	BodyKind   string // text | utf8 | json | binary | form | multipart | badform | badmultipart | empty

	// C16 facts
	Query      []Field // decoded query parameters in order
	Cookies    []Field // request cookies in order
	SetCookies []CookieSpec
	Form       []Field
	Parts      []PartSpec
	Location   string
}

// StartLine renders the first line without CRLF.
func (s *Spec) StartLine() string {
	if s.Resp {
		if s.Reason == "" {
			return fmt.Sprintf("%s %d", s.Proto, s.Status)
		}
		return fmt.Sprintf("%s %d %s", s.Proto, s.Status, s.Reason)
	}
	return s.Method + " " + s.Target + " " + s.Proto
}

// Wire renders the message.
func (s *Spec) Wire() []byte {
	var b bytes.Buffer
	b.WriteString(s.StartLine())
	b.WriteString("\r\n")
	for _, h := range s.Headers {
		b.WriteString(h.Name)
		b.WriteString(": ")
		b.WriteString(h.Value)
		b.WriteString("\r\n")
	}
	b.WriteString("\r\n")
	if s.NoWire {
		return b.Bytes()
	}
	switch s.Framing {
	case "cl", "close":
		b.Write(s.Body)
	case "chunked":
		off := 0
		for i, n := range s.Chunks {
			if n <= 0 {
				continue
			}
			b.WriteString(strconv.FormatInt(int64(n), 16))
			if s.ChunkExt && i%2 == 0 {
				b.WriteString(";x=" + strconv.Itoa(i))
			}
			b.WriteString("\r\n")
			b.Write(s.Body[off : off+n])
			b.WriteString("\r\n")
			off += n
		}
		b.WriteString("0\r\n")
		for _, t := range s.Trailers {
			b.WriteString(t.Name + ": " + t.Value + "\r\n")
		}
		b.WriteString("\r\n")
	}
	return b.Bytes()
}

// Get returns the trimmed values of the header lines named name (any case).
func Get(hs []Field, name string) []string {
	var out []string
	for _, h := range hs {
		if strings.EqualFold(h.Name, name) {
			out = append(out, TrimOWS(h.Value))
		}
	}
	return out
}

// Has reports whether a header named name is present.
func Has(hs []Field, name string) bool {
	for _, h := range hs {
		if strings.EqualFold(h.Name, name) {
			return true
		}
	}
	return false
}

// TrimOWS trims optional whitespace (SP / HTAB) around a field value.
func TrimOWS(v string) string { return strings.Trim(v, " \t") }

// ListElems splits the values of the lines on commas and returns the
// non-empty trimmed elements in order (RFC 7230 #rule).
func ListElems(values []string) []string {
	var out []string
	for _, v := range values {
		for _, e := range strings.Split(v, ",") {
			e = TrimOWS(e)
			if e != "" {
				out = append(out, e)
			}
		}
	}
	return out
}

// ByName groups fields by lower-cased name, preserving per-name order and
// trimming OWS; names in skip (lower case) are left out.
func ByName(hs []Field, skip map[string]bool) map[string][]string {
	m := map[string][]string{}
	for _, h := range hs {
		n := strings.ToLower(h.Name)
		if skip[n] {
			continue
		}
		m[n] = append(m[n], TrimOWS(h.Value))
	}
	return m
}

// DiffByName compares two grouped header sets; "" when equal.
func DiffByName(got, want map[string][]string) string {
	var ds []string
	for n, w := range want {
		g, ok := got[n]
		if !ok {
			ds = append(ds, fmt.Sprintf("missing %q (want %q)", n, w))
			continue
		}
		if !eqStrs(g, w) {
			ds = append(ds, fmt.Sprintf("%q: got %q want %q", n, g, w))
		}
	}
	for n, g := range got {
		if _, ok := want[n]; !ok {
			ds = append(ds, fmt.Sprintf("unexpected %q = %q", n, g))
		}
	}
	if len(ds) == 0 {
		return ""
	}
	sortStrings(ds)
	if len(ds) > 6 {
		ds = append(ds[:6], fmt.Sprintf("... %d more", len(ds)-6))
	}
	return strings.Join(ds, "; ")
}

func eqStrs(a, b []string) bool {
	if len(a) != len(b) {
		return false
	}
	for i := range a {
		if a[i] != b[i] {
			return false
		}
	}
	return true
}

func sortStrings(s []string) {
	for i := 1; i < len(s); i++ {
		for j := i; j > 0 && s[j] < s[j-1]; j-- {
			s[j], s[j-1] = s[j-1], s[j]
		}
	}
}

// Excerpt renders at most n bytes of b printable for a witness.
func Excerpt(b []byte, n int) string {
	t := b
	suffix := ""
	if len(t) > n {
		t = t[:n]
		suffix = fmt.Sprintf("...(+%d bytes)", len(b)-n)
	}
	return strconv.QuoteToASCII(string(t)) + suffix
}

// WireBody is the entity body that actually travels (nil for NoWire messages).
func (s *Spec) WireBody() []byte {
	if s.NoWire {
		return nil
	}
	return s.Body
}

// WirePayload is the decoded body that actually travels.
func (s *Spec) WirePayload() []byte {
	if s.NoWire {
		return nil
	}
	return s.Payload
}

// Kind names the message kind for coverage classes.
func (s *Spec) Kind() string {
	if !s.Resp {
		return "req"
	}
	switch {
	case s.Method == "HEAD":
		return "head-resp"
	case s.Status == 204:
		return "204"
	case s.Status == 304:
		return "304"
	case s.Status == 206:
		return "206"
	}
	return "resp"
}

// FramingClass names framing + trailers for coverage classes.
func (s *Spec) FramingClass() string {
	f := s.Framing
	if len(s.Trailers) > 0 {
		f += "+trailers"
		if !s.Declared {
			f += "-undeclared"
		}
	}
	return f
}

// CodingClass names the content coding for coverage classes.
func (s *Spec) CodingClass() string {
	if s.CodingKind == "" {
		return "none"
	}
	if s.Members > 1 {
		return s.CodingKind + "-multimember"
	}
	return s.CodingKind
}
