package msgx

import (
	"bytes"
	"compress/flate"
	"compress/gzip"
	"compress/zlib"
	"fmt"
	"hash/adler32"
	"math/rand"
	"net/url"
	"strconv"
	"strings"
	"time"
	"unicode/utf8"
)

// GenOpts steers the message generator.
type GenOpts struct {
	Key      string // exchange key placed in the request path ("/k/<key>/...")
	Rich     bool   // C16 material: query strings, cookies, forms, multipart, redirects
	BadForms bool   // allow form / multipart content types whose body does not parse
	Zlib     bool   // allow RFC 1950 (zlib) bodies under the name "deflate"
	MaxSize  int    // cap on body size (0 = 1 MiB)
	NoBig    bool   // leave out the 65537 / 1 MiB sizes
	Proxy    bool   // message travels through a real proxy: keep to what Go's transport forwards verbatim
	// OddCTypeParams gives a fixed share of the plain content types an unusual
	// parameter tail (repeated parameter, quoted value, stray semicolons): the
	// field value still starts with the media type.
	OddCTypeParams bool
	// BadQuery lets some request targets carry query pairs with a malformed
	// percent-escape ("width=100%", "q=50%+off"): net/url keeps RawQuery verbatim
	// and net/http accepts and forwards such targets.
	BadQuery bool
	// HugeInflate makes the response a highly compressible body of 1-4 MiB
	// (MaxInflate) under gzip / deflate: a few KiB on the wire.
	HugeInflate bool
	MaxInflate  int
	// UndeclaredTrailers makes chunked messages send their trailer fields (more
	// often than usual) without announcing them in a Trailer header.
	UndeclaredTrailers bool
}

var sizeTable = []struct {
	n, w int
}{{0, 10}, {1, 8}, {-1, 44}, {4096, 18}, {65537, 12}, {1 << 20, 8}}

// PickSize draws a body size from {0, 1, small random, 4096, 65537, 1 MiB}.
func PickSize(rng *rand.Rand, o GenOpts) int {
	tot := 0
	for _, s := range sizeTable {
		tot += s.w
	}
	for {
		x := rng.Intn(tot)
		n := 0
		for _, s := range sizeTable {
			if x < s.w {
				n = s.n
				break
			}
			x -= s.w
		}
		if n == -1 {
			n = 2 + rng.Intn(600)
		}
		if o.NoBig && n > 4096 {
			continue
		}
		if o.MaxSize > 0 && n > o.MaxSize {
			continue
		}
		return n
	}
}

// SizeBucket names the size class of a body.
func SizeBucket(n int) string {
	switch {
	case n == 0:
		return "0"
	case n == 1:
		return "1"
	case n < 4096:
		return "small"
	case n < 65537:
		return "4k"
	case n < 1<<20:
		return "64k"
	}
	return "1M"
}

const tokenChars = "abcdefghijklmnopqrstuvwxyzABCDEFGHIJKLMNOPQRSTUVWXYZ0123456789"

func randToken(rng *rand.Rand, n int) string {
	b := make([]byte, n)
	for i := range b {
		b[i] = tokenChars[rng.Intn(len(tokenChars))]
	}
	return string(b)
}

var valueAlphabet = "abcdefghijklmnopqrstuvwxyzABCDEFGHIJKLMNOPQRSTUVWXYZ0123456789 !#$%&'()*+-./:;<=>?@[]^_`{|}~\""

// RandValue draws a header value: visible ASCII with inner spaces, sometimes UTF-8.
func RandValue(rng *rand.Rand) string {
	n := 1 + rng.Intn(24)
	b := make([]byte, 0, n+4)
	for i := 0; i < n; i++ {
		b = append(b, valueAlphabet[rng.Intn(len(valueAlphabet))])
	}
	s := strings.Trim(string(b), " ")
	if s == "" {
		s = "v"
	}
	if rng.Intn(12) == 0 {
		s += " é✓"
	}
	return s
}

var textWords = []string{"alpha", "beta", "gamma", "delta", "lorem", "ipsum", "dolor", "sit", "amet", "\r\n", "\n", " ", "0", "7\r\nabcdefg\r\n0\r\n", "--", "=", "&", "%", "\t"}

func genBytes(rng *rand.Rand, kind string, n int) []byte {
	b := make([]byte, 0, n+16)
	switch kind {
	case "text":
		for len(b) < n {
			b = append(b, textWords[rng.Intn(len(textWords))]...)
			b = append(b, ' ')
		}
	case "utf8":
		runes := []string{"é", "ü", "✓", "日本", "𝄞", "a", "b", " ", "\n", "ß"}
		for len(b) < n {
			b = append(b, runes[rng.Intn(len(runes))]...)
		}
		// cut on a rune boundary
		for len(b) > n && n > 0 {
			b = b[:len(b)-1]
			for len(b) > 0 && b[len(b)-1]&0xC0 == 0x80 {
				b = b[:len(b)-1]
			}
			if len(b) > 0 && b[len(b)-1] >= 0xC0 {
				b = b[:len(b)-1]
			}
		}
		for len(b) < n {
			b = append(b, 'x')
		}
		return b
	case "mixed":
		// valid UTF-8 for a prefix of PRNG length (often beyond 512 or 4096
		// bytes, where sniffers stop looking), then bytes that are not UTF-8
		return mixedBytes(rng, n)
	case "json":
		b = append(b, `{"items":[`...)
		for len(b) < n {
			b = append(b, fmt.Sprintf(`{"id":%d,"name":"%s"},`, rng.Intn(100000), randToken(rng, 6))...)
		}
	case "binary":
		b = b[:n]
		if n > 8192 && rng.Intn(2) == 0 {
			// compressible binary: repeated random block with NULs and invalid UTF-8
			blk := make([]byte, 97)
			rng.Read(blk)
			blk[0], blk[1], blk[2] = 0, 0xff, 0xfe
			for i := range b {
				b[i] = blk[i%len(blk)]
			}
		} else {
			rng.Read(b)
			if n > 0 {
				b[0] = 0xff // never valid UTF-8
			}
			if n > 2 {
				b[1] = 0
			}
		}
		return b
	}
	if len(b) > n {
		b = b[:n]
	}
	for len(b) < n {
		b = append(b, '.')
	}
	return b
}

// mixedBytes returns n bytes: a valid UTF-8 prefix followed by a tail that is
// not valid UTF-8 (Latin-1 letters, lone continuation bytes, 0xff/0xfe, NULs).
func mixedBytes(rng *rand.Rand, n int) []byte {
	if n <= 0 {
		return []byte{}
	}
	tails := [][]byte{{0xe9}, {0x80}, {0xff, 0xfe}, {0x00, 0xc3}, []byte("caf\xe9 \xfcber"), {0xbf, 0xbf, 0x00}, {0xf0, 0x9f, 0x98}, {0xc0, 0xaf}}
	tail := tails[rng.Intn(len(tails))]
	extra := 0
	if rng.Intn(2) == 0 {
		extra = rng.Intn(40)
	}
	tl := len(tail) + extra
	if tl > n {
		tl = n
	}
	// prefix length: anywhere, with a bias to just past the usual sniffing limits
	maxPre := n - tl
	pre := 0
	if maxPre > 0 {
		switch rng.Intn(5) {
		case 0:
			pre = rng.Intn(maxPre + 1)
		case 1:
			pre = 513 + rng.Intn(200)
		case 2:
			pre = 4097 + rng.Intn(3000)
		case 3:
			pre = maxPre
		default:
			pre = 600 + rng.Intn(8000)
		}
		if pre > maxPre {
			pre = maxPre
		}
	}
	kind := "text"
	if rng.Intn(2) == 0 {
		kind = "utf8"
	}
	b := genBytes(rng, kind, pre)
	b = append(b, tail...)
	for len(b) < n {
		switch rng.Intn(4) {
		case 0:
			b = append(b, 0)
		case 1:
			b = append(b, byte(0x80+rng.Intn(0x40)))
		case 2:
			b = append(b, byte(0xc0+rng.Intn(0x40)))
		default:
			b = append(b, 'a'+byte(rng.Intn(26)))
		}
	}
	b = b[:n]
	if utf8.Valid(b) { // cannot happen for n >= len(tail); keep the promise anyway
		b[len(b)-1] = 0xff
	}
	return b
}

// EncodeGzipMembers compresses payload as a gzip stream of len(cuts)+1
// members (RFC 1952 section 2.2: a gzip file is a series of members); cuts are
// ascending offsets into payload, equal offsets give empty members.
func EncodeGzipMembers(payload []byte, cuts []int) []byte {
	var buf bytes.Buffer
	prev := 0
	for i := 0; i <= len(cuts); i++ {
		end := len(payload)
		if i < len(cuts) {
			end = cuts[i]
		}
		w := gzip.NewWriter(&buf)
		w.Write(payload[prev:end])
		w.Close()
		prev = end
	}
	return buf.Bytes()
}

// EncodeZlibWindow returns payload as a zlib stream (RFC 1950) whose header
// announces a window of 2^(cinfo+8) bytes and compression level flevel: a
// raw DEFLATE stream from compress/flate, framed by hand with CMF/FLG (FCHECK
// correct) and the Adler-32 of the payload. cinfo is raised as far as needed
// for the announcement to be truthful (no back-reference can reach further
// than the payload is long).
func EncodeZlibWindow(payload []byte, cinfo, flevel int) []byte {
	for cinfo < 7 && 1<<uint(cinfo+8) < len(payload) {
		cinfo++
	}
	cmf := byte(cinfo<<4 | 8)
	flg := byte(flevel&3) << 6
	flg += byte(31 - (uint16(cmf)<<8|uint16(flg))%31)
	if (uint16(cmf)<<8|uint16(flg))%31 != 0 { // the remainder was already 0
		flg -= 31
	}
	var buf bytes.Buffer
	buf.WriteByte(cmf)
	buf.WriteByte(flg)
	w, _ := flate.NewWriter(&buf, flate.DefaultCompression)
	w.Write(payload)
	w.Close()
	a := adler32.Checksum(payload)
	buf.Write([]byte{byte(a >> 24), byte(a >> 16), byte(a >> 8), byte(a)})
	return buf.Bytes()
}

// Encode applies a content coding.
func Encode(kind string, payload []byte) []byte {
	var buf bytes.Buffer
	switch kind {
	case "gzip":
		w := gzip.NewWriter(&buf)
		w.Write(payload)
		w.Close()
	case "deflate":
		w, _ := flate.NewWriter(&buf, flate.DefaultCompression)
		w.Write(payload)
		w.Close()
	case "zlib":
		w := zlib.NewWriter(&buf)
		w.Write(payload)
		w.Close()
	default:
		return payload
	}
	return buf.Bytes()
}

func sortInts(a []int) {
	for i := 1; i < len(a); i++ {
		for j := i; j > 0 && a[j] < a[j-1]; j-- {
			a[j], a[j-1] = a[j-1], a[j]
		}
	}
}

func splitChunks(rng *rand.Rand, n int) []int {
	if n == 0 {
		return nil
	}
	var out []int
	switch rng.Intn(4) {
	case 0:
		return []int{n}
	case 1: // many small
		for n > 0 {
			k := 1 + rng.Intn(17)
			if k > n || len(out) > 400 {
				k = n
			}
			out = append(out, k)
			n -= k
		}
	default:
		for n > 0 {
			k := 1 + rng.Intn(n)
			if len(out) > 12 {
				k = n
			}
			out = append(out, k)
			n -= k
		}
	}
	return out
}

var hosts = []string{"origin.example", "a.example.com", "h-1.test:8080", "10.2.3.4", "10.2.3.4:81", "xn--bcher-kva.example"}
var methodsBody = []string{"POST", "PUT", "PATCH"}
var methodsNoBody = []string{"GET", "GET", "GET", "DELETE", "OPTIONS", "HEAD"}

var plainCTypes = map[string][]string{
	"mixed":  {"text/plain", "text/plain; charset=iso-8859-1", "text/html", "application/json", "text/csv"},
	"text":   {"text/plain", "text/plain; charset=utf-8", "Text/HTML", "text/css", "application/x-custom"},
	"utf8":   {"text/plain; charset=utf-8", "text/html; charset=UTF-8", "application/xml"},
	"json":   {"application/json", "APPLICATION/JSON; charset=utf-8", "application/vnd.api+json"},
	"binary": {"application/octet-stream", "image/png", "video/mp4", "application/x-protobuf"},
}

// oddCTypeTails are parameter tails that are unusual on the wire but leave the
// media type at the start of the field value untouched.
var oddCTypeTails = []string{
	"; charset=utf-8; charset=UTF-8", // parameter given twice, values differing in case
	"; charset=utf-8; charset=iso-8859-1",
	`;charset="utf-8"`,
	"; q=0.5 ; x",
	";",
	"; charset=utf-8; boundary=zz; charset=utf-8",
}

func pathSeg(rng *rand.Rand) string {
	segs := []string{"a", "items", "v1", "x-y_z", "%41bc", "caf%C3%A9", "a%2Fb", "~u", "i.d", "1234", "a+b", "p;v=1", "@me", "a,b"}
	return segs[rng.Intn(len(segs))]
}

func genQuery(rng *rand.Rand) (raw string, q []Field) {
	names := []string{"q", "a", "id", "x y", "k&k", "é", "n=1", "", "arr[]", "a"}
	n := 1 + rng.Intn(5)
	var parts []string
	for i := 0; i < n; i++ {
		name := names[rng.Intn(len(names))]
		var val string
		switch rng.Intn(5) {
		case 0:
			val = ""
		case 1:
			val = "a b&c=d/é?#"
		case 2:
			val = strconv.Itoa(rng.Intn(1000))
		default:
			val = randToken(rng, 1+rng.Intn(8))
		}
		if name == "" && val == "" {
			val = "v"
		}
		q = append(q, Field{name, val})
		en := url.QueryEscape(name)
		if val == "" && rng.Intn(2) == 0 {
			parts = append(parts, en)
		} else {
			ev := url.QueryEscape(val)
			if rng.Intn(3) == 0 {
				ev = strings.ReplaceAll(ev, "+", "%20")
			}
			parts = append(parts, en+"="+ev)
		}
	}
	return strings.Join(parts, "&"), q
}

func cookieValue(rng *rand.Rand) string {
	const cv = "abcdefghijklmnopqrstuvwxyzABCDEFGHIJKLMNOPQRSTUVWXYZ0123456789!#$%&'()*+-./:<=>?@[]^_`{|}~"
	n := rng.Intn(14)
	b := make([]byte, n)
	for i := range b {
		b[i] = cv[rng.Intn(len(cv))]
	}
	return string(b)
}

func genForm(rng *rand.Rand, size int) (body []byte, form []Field) {
	var parts []string
	tot := 0
	for i := 0; i == 0 || tot < size; i++ {
		name := []string{"user", "pass word", "k&=", "é", "f" + strconv.Itoa(i), "dup"}[rng.Intn(6)]
		var val string
		switch rng.Intn(5) {
		case 0:
			val = ""
		case 1:
			val = "a b+c&d=e%/é\r\n"
		case 2:
			// text that stops being UTF-8 somewhere (Latin-1, lone continuation bytes, NUL)
			val = string(mixedBytes(rng, 3+rng.Intn(60)))
		default:
			val = randToken(rng, 1+rng.Intn(40))
		}
		if size > 2000 && rng.Intn(3) == 0 {
			val = randToken(rng, 500)
			if rng.Intn(3) == 0 {
				val = string(mixedBytes(rng, 600+rng.Intn(600)))
			}
		}
		form = append(form, Field{name, val})
		p := url.QueryEscape(name) + "=" + url.QueryEscape(val)
		parts = append(parts, p)
		tot += len(p) + 1
		if i > 3000 {
			break
		}
	}
	return []byte(strings.Join(parts, "&")), form
}

func genMultipart(rng *rand.Rand, size int, binaryOK bool) (body []byte, boundary string, parts []PartSpec) {
	boundary = "----vb" + randToken(rng, 12)
	var b bytes.Buffer
	n := 1 + rng.Intn(4)
	per := size / n
	for i := 0; i < n; i++ {
		p := PartSpec{Name: []string{"field", "file", "a b", "n" + strconv.Itoa(i)}[rng.Intn(4)]}
		vlen := per
		if vlen > 200000 {
			vlen = 200000
		}
		isFile := rng.Intn(2) == 0
		if isFile {
			p.Filename = []string{"a.txt", "photo.png", "data.bin", "résumé.pdf"}[rng.Intn(4)]
			p.ContentType = []string{"text/plain", "image/png", "application/octet-stream"}[rng.Intn(3)]
			switch x := rng.Intn(4); {
			case binaryOK && x < 2:
				p.Value = genBytes(rng, "binary", vlen)
			case binaryOK && x == 2:
				p.Value = genBytes(rng, "mixed", vlen)
			default:
				p.Value = genBytes(rng, "text", vlen)
			}
		} else {
			p.Value = genBytes(rng, []string{"text", "utf8", "mixed"}[rng.Intn(3)], vlen%300)
		}
		// the boundary delimiter must not occur in a value
		p.Value = bytes.ReplaceAll(p.Value, []byte("\r\n--"+boundary), []byte("\r\n-+"+boundary))
		b.WriteString("--" + boundary + "\r\n")
		cd := `form-data; name="` + p.Name + `"`
		if isFile {
			cd += `; filename="` + p.Filename + `"`
		}
		b.WriteString("Content-Disposition: " + cd + "\r\n")
		if p.ContentType != "" {
			b.WriteString("Content-Type: " + p.ContentType + "\r\n")
		}
		b.WriteString("\r\n")
		b.Write(p.Value)
		b.WriteString("\r\n")
		parts = append(parts, p)
	}
	b.WriteString("--" + boundary + "--\r\n")
	return b.Bytes(), boundary, parts
}

// fillBody draws body kind, content type, coding and framing-independent
// material into s. withBody=false leaves the body empty.
func fillBody(rng *rand.Rand, s *Spec, o GenOpts, size int, allowForms bool) {
	kinds := []string{"text", "utf8", "json", "binary", "binary", "mixed", "mixed"}
	kind := kinds[rng.Intn(len(kinds))]
	if allowForms && o.Rich && rng.Intn(3) == 0 {
		kind = []string{"form", "multipart"}[rng.Intn(2)]
		if o.BadForms && rng.Intn(6) == 0 {
			kind = "bad" + kind
		}
	}
	if kind == "mixed" && size > 1 && size < 4096 && rng.Intn(2) == 0 {
		size = 700 + rng.Intn(9000)
		if o.MaxSize > 0 && size > o.MaxSize {
			size = o.MaxSize
		}
	}
	if size == 0 && kind != "badform" && kind != "badmultipart" {
		// an empty body still has a declared type most of the time
		s.BodyKind = "empty"
		if rng.Intn(3) > 0 {
			c := plainCTypes["text"]
			s.CType = c[rng.Intn(len(c))]
		}
		s.Payload = []byte{}
	} else {
		s.BodyKind = kind
		switch kind {
		case "form":
			s.Payload, s.Form = genForm(rng, size)
			s.CType = []string{"application/x-www-form-urlencoded", "application/x-www-form-urlencoded; charset=UTF-8", "Application/X-WWW-Form-Urlencoded"}[rng.Intn(3)]
		case "multipart":
			var bd string
			s.Payload, bd, s.Parts = genMultipart(rng, size, true)
			s.CType = "multipart/form-data; boundary=" + bd
			if rng.Intn(4) == 0 {
				s.CType = `multipart/form-data; boundary="` + bd + `"`
			}
		case "badform":
			s.Payload = [][]byte{[]byte("a=1;b=2"), []byte("a=%zz&b=1"), []byte("%"), genBytes(rng, "binary", 40)}[rng.Intn(4)]
			if s.Payload[0] == 0xff {
				s.Payload = append([]byte("x=%"), s.Payload...)
			}
			s.CType = "application/x-www-form-urlencoded"
		case "badmultipart":
			s.Payload = [][]byte{[]byte("--nope\r\n\r\n"), []byte("no multipart at all"), []byte("--xyz\r\nContent-Disposition: form-data; name=\"a\"\r\n\r\ntruncated")}[rng.Intn(3)]
			s.CType = []string{"multipart/form-data; boundary=xyz", "multipart/form-data"}[rng.Intn(2)]
		default:
			s.Payload = genBytes(rng, kind, size)
			c := plainCTypes[kind]
			if rng.Intn(10) > 0 {
				s.CType = c[rng.Intn(len(c))]
			}
			// decided by the size already drawn, not by a further PRNG draw
			if o.OddCTypeParams && s.CType != "" && size%4 == 1 {
				base := s.CType
				if i := strings.IndexByte(base, ';'); i >= 0 {
					base = base[:i]
				}
				s.CType = base + oddCTypeTails[(size/4)%len(oddCTypeTails)]
			}
		}
	}
	// content coding
	s.Body = s.Payload
	x := rng.Intn(100)
	formLike := strings.Contains(s.BodyKind, "form") || strings.Contains(s.BodyKind, "multipart")
	switch {
	case x < 45 || (formLike && x < 85):
	case x < 65:
		s.Coding, s.CodingKind = "gzip", "gzip"
	case x < 78:
		s.Coding, s.CodingKind = "deflate", "deflate"
		if o.Zlib && rng.Intn(3) == 0 {
			s.CodingKind = "zlib"
		}
	case x < 90:
		s.Coding, s.CodingKind = []string{"br", "x-custom", "compress"}[rng.Intn(3)], "unknown"
	default:
		s.Coding, s.CodingKind = "identity", "identity"
	}
	if s.CodingKind == "gzip" && rng.Intn(3) == 0 {
		// several gzip members, some possibly empty
		k := 1 + rng.Intn(3)
		cuts := make([]int, k)
		for i := range cuts {
			cuts[i] = rng.Intn(len(s.Payload) + 1)
			if rng.Intn(4) == 0 && i > 0 {
				cuts[i] = cuts[i-1]
			}
		}
		sortInts(cuts)
		s.Members = k + 1
		s.Body = EncodeGzipMembers(s.Payload, cuts)
	} else if s.CodingKind == "gzip" || s.CodingKind == "deflate" || s.CodingKind == "zlib" {
		s.Members = 1
		s.Body = Encode(s.CodingKind, s.Payload)
		if s.CodingKind == "zlib" && rng.Intn(2) == 0 {
			// compress/zlib always announces a 32 KiB window (CMF 0x78); other
			// encoders announce the window they used
			s.Body = EncodeZlibWindow(s.Payload, rng.Intn(8), rng.Intn(4))
		}
	}
}

func innocents(rng *rand.Rand, n int) []Field {
	names := []string{"X-Trace", "x-lower", "X-UPPER", "Accept", "Accept-Language", "Authorization", "If-None-Match", "X-Dup", "X-Dup", "Referer", "Etag", "Last-Modified", "Vary", "X-Empty", "Date", "Server", "X-Long"}
	var fs []Field
	for i := 0; i < n; i++ {
		nm := names[rng.Intn(len(names))]
		v := RandValue(rng)
		switch nm {
		case "X-Empty":
			v = ""
		case "X-Long":
			v = strings.Repeat(randToken(rng, 10)+" ", 20+rng.Intn(100))
			v = strings.TrimSpace(v)
		case "Date", "Last-Modified":
			v = time.Unix(1500000000+int64(rng.Intn(1e8)), 0).UTC().Format("Mon, 02 Jan 2006 15:04:05 GMT")
		}
		fs = append(fs, Field{nm, v})
	}
	return fs
}

func framingLines(rng *rand.Rand, s *Spec, allowTrailers bool, o GenOpts) []Field {
	var fs []Field
	switch s.Framing {
	case "cl":
		fs = append(fs, Field{"Content-Length", strconv.Itoa(len(s.Body))})
	case "chunked":
		fs = append(fs, Field{"Transfer-Encoding", "chunked"})
		s.Chunks = splitChunks(rng, len(s.Body))
		s.ChunkExt = rng.Intn(6) == 0
		if allowTrailers && (rng.Intn(3) == 0 || o.UndeclaredTrailers && rng.Intn(2) == 0) {
			names := []string{"X-Checksum", "X-Trailer-A", "Etag-Check", "x-t-lower"}
			k := 1 + rng.Intn(3)
			perm := rng.Perm(len(names))
			for i := 0; i < k; i++ {
				s.Trailers = append(s.Trailers, Field{names[perm[i]], RandValue(rng)})
			}
			if !o.UndeclaredTrailers {
				s.Declared = true
				var ns []string
				for _, t := range s.Trailers {
					ns = append(ns, t.Name)
				}
				fs = append(fs, Field{"Trailer", strings.Join(ns, ", ")})
			}
		}
	}
	return fs
}

func shuffleKeepFirst(rng *rand.Rand, fs []Field, keep int) {
	rest := fs[keep:]
	rng.Shuffle(len(rest), func(i, j int) { rest[i], rest[j] = rest[j], rest[i] })
	// same-name lines keep their relative order irrelevant here: values are drawn independently
}

// GenRequest draws a request spec.
func GenRequest(rng *rand.Rand, o GenOpts) *Spec {
	s := &Spec{Proto: "HTTP/1.1", Scheme: "http"}
	if rng.Intn(8) == 0 {
		s.Proto = "HTTP/1.0"
	}
	s.Host = hosts[rng.Intn(len(hosts))]
	withBody := rng.Intn(100) < 70
	if withBody {
		s.Method = methodsBody[rng.Intn(len(methodsBody))]
		if rng.Intn(15) == 0 && !o.Proxy {
			s.Method = "GET" // a GET carrying a body
		}
	} else {
		s.Method = methodsNoBody[rng.Intn(len(methodsNoBody))]
	}
	s.Path = "/k/" + o.Key
	for i, n := 0, rng.Intn(4); i < n; i++ {
		s.Path += "/" + pathSeg(rng)
	}
	if rng.Intn(4) == 0 {
		s.Path += "/"
	}
	if o.Rich && rng.Intn(2) == 0 || rng.Intn(5) == 0 {
		s.RawQuery, s.Query = genQuery(rng)
		s.HasQuery = true
	}
	if o.BadQuery && rng.Intn(6) == 0 {
		bad := []string{"width=100%", "q=50%+off", "x=%zz", "%=1", "pct=5%25%", "t=%e9%", "discount=100%", "a=1;b=2"}[rng.Intn(8)]
		switch {
		case !s.HasQuery:
			s.RawQuery = bad
		case rng.Intn(2) == 0:
			s.RawQuery = bad + "&" + s.RawQuery
		default:
			s.RawQuery += "&" + bad
		}
		s.HasQuery, s.BadQuery = true, true
	}
	s.Target = s.Scheme + "://" + s.Host + s.Path
	if s.HasQuery {
		s.Target += "?" + s.RawQuery
	}
	hs := []Field{{"Host", s.Host}, {"User-Agent", "verif-client/1.0 (x; y)"}, {"Accept-Encoding", []string{"gzip, deflate", "identity", "br;q=1.0, gzip;q=0.5"}[rng.Intn(3)]}}
	var rest []Field
	rest = append(rest, innocents(rng, rng.Intn(6))...)
	if o.Rich && rng.Intn(2) == 0 {
		lines := 1 + rng.Intn(2)
		for l := 0; l < lines; l++ {
			var cs []string
			for i, n := 0, 1+rng.Intn(3); i < n; i++ {
				c := Field{[]string{"sid", "theme", "_ga", "X-Tok", "dup"}[rng.Intn(5)], cookieValue(rng)}
				s.Cookies = append(s.Cookies, c)
				cs = append(cs, c.Name+"="+c.Value)
			}
			rest = append(rest, Field{"Cookie", strings.Join(cs, "; ")})
		}
	}
	if withBody {
		size := PickSize(rng, o)
		fillBody(rng, s, o, size, true)
		if s.Proto == "HTTP/1.0" || rng.Intn(2) == 0 {
			s.Framing = "cl"
		} else {
			s.Framing = "chunked"
		}
		if s.CType != "" {
			rest = append(rest, Field{"Content-Type", s.CType})
		}
		if s.Coding != "" {
			rest = append(rest, Field{"Content-Encoding", s.Coding})
		}
		rest = append(rest, framingLines(rng, s, true, o)...)
	} else {
		s.Framing = "none"
		s.BodyKind = "empty"
		s.Payload, s.Body = []byte{}, []byte{}
		if rng.Intn(5) == 0 {
			s.Framing = "cl"
			rest = append(rest, Field{"Content-Length", "0"})
		}
	}
	rng.Shuffle(len(rest), func(i, j int) { rest[i], rest[j] = rest[j], rest[i] })
	s.Headers = append(hs, rest...)
	return s
}

var statuses = []struct {
	code   int
	reason string
	w      int
}{{200, "OK", 40}, {201, "Created", 5}, {206, "Partial Content", 6}, {204, "No Content", 6}, {304, "Not Modified", 8},
	{301, "Moved Permanently", 4}, {302, "Found", 4}, {307, "Temporary Redirect", 2}, {300, "Multiple Choices", 2}, {303, "See Other", 2},
	{305, "Use Proxy", 2}, {308, "Permanent Redirect", 3}, {404, "Not Found", 8}, {500, "Internal Server Error", 5}, {200, "Fine by me", 4}, {418, "I'm a teapot", 3}}

// GenResponse draws a response spec answering a request with method reqMethod.
func GenResponse(rng *rand.Rand, o GenOpts, reqMethod string) *Spec {
	s := &Spec{Resp: true, Method: reqMethod, Proto: "HTTP/1.1"}
	if rng.Intn(8) == 0 {
		s.Proto = "HTTP/1.0"
	}
	tot := 0
	for _, st := range statuses {
		tot += st.w
	}
	x := rng.Intn(tot)
	for _, st := range statuses {
		if x < st.w {
			s.Status, s.Reason = st.code, st.reason
			break
		}
		x -= st.w
	}
	var rest []Field
	rest = append(rest, innocents(rng, rng.Intn(6))...)
	if s.Status/100 == 3 && s.Status != 304 || (s.Status == 201 || s.Status == 404) && rng.Intn(3) == 0 {
		s.Location = []string{"http://origin.example/next?x=1", "/relative/path", "https://other.example/a%20b", "//scheme.relative/x"}[rng.Intn(4)]
		rest = append(rest, Field{"Location", s.Location})
	}
	if o.Rich && rng.Intn(2) == 0 {
		for i, n := 0, 1+rng.Intn(3); i < n; i++ {
			c := CookieSpec{Name: []string{"sid", "pref", "X-C", "dup"}[rng.Intn(4)], Value: cookieValue(rng)}
			line := c.Name + "=" + c.Value
			if rng.Intn(2) == 0 {
				c.Path = []string{"/", "/app", "/a/b"}[rng.Intn(3)]
				line += "; Path=" + c.Path
			}
			if rng.Intn(2) == 0 {
				c.Domain = []string{"example.com", "origin.example"}[rng.Intn(2)]
				line += "; Domain=" + c.Domain
			}
			if rng.Intn(2) == 0 {
				t := time.Unix(1600000000+int64(rng.Intn(3e8)), 0).UTC()
				c.Expires = t.Format(time.RFC3339)
				line += "; Expires=" + t.Format("Mon, 02 Jan 2006 15:04:05 GMT")
			}
			if rng.Intn(2) == 0 {
				c.HTTPOnly = true
				line += "; HttpOnly"
			}
			if rng.Intn(2) == 0 {
				c.Secure = true
				line += "; Secure"
			}
			s.SetCookies = append(s.SetCookies, c)
			rest = append(rest, Field{"Set-Cookie", line})
		}
	}
	noWire := reqMethod == "HEAD" || s.Status == 204 || s.Status == 304
	size := PickSize(rng, o)
	if s.Status == 204 {
		size = 0
	}
	fillBody(rng, s, o, size, false)
	if o.HugeInflate && s.Status != 204 {
		max := o.MaxInflate
		if max < 2<<20 {
			max = 2 << 20
		}
		n := 1<<20 + 1 + rng.Intn(max-1<<20)
		blk := genBytes(rng, []string{"text", "binary", "utf8"}[rng.Intn(3)], 50+rng.Intn(200))
		s.Payload = bytes.Repeat(blk, n/len(blk)+1)[:n]
		s.BodyKind = "compressible"
		s.Coding, s.CodingKind = "gzip", "gzip"
		switch rng.Intn(4) {
		case 0:
			s.Coding, s.CodingKind = "deflate", "deflate"
		case 1:
			s.Coding, s.CodingKind = "deflate", "zlib"
		}
		s.Members = 1
		s.Body = Encode(s.CodingKind, s.Payload)
	}
	if s.Status == 204 {
		s.Coding, s.CodingKind, s.Body = "", "", s.Payload
		if rng.Intn(3) > 0 {
			s.CType = ""
		}
	}
	switch {
	case s.Status == 204:
		s.Framing = "none"
	case s.Proto == "HTTP/1.0":
		s.Framing = []string{"cl", "close"}[rng.Intn(2)]
	default:
		s.Framing = []string{"cl", "cl", "chunked", "chunked", "close"}[rng.Intn(5)]
	}
	if noWire {
		s.NoWire = true
		if s.Framing == "close" {
			s.Framing = "none"
		}
	}
	if s.Status == 206 {
		total := len(s.Body) + 10 + rng.Intn(1000)
		start := rng.Intn(10)
		// Every second 206 of a compressed representation (decided by the encoded
		// length, no further PRNG draw) carries what a range request really yields:
		// the first half of the encoded stream, "bytes 0-k/total" - a part that
		// cannot be decoded on its own.
		if !noWire && (s.CodingKind == "gzip" || s.CodingKind == "deflate" || s.CodingKind == "zlib") && len(s.Body) >= 8 && len(s.Body)%2 == 0 {
			total = len(s.Body)
			start = 0
			s.Body = s.Body[:len(s.Body)/2]
		}
		end := start + len(s.Body) - 1
		if len(s.Body) == 0 {
			end = start
		}
		rest = append(rest, Field{"Content-Range", fmt.Sprintf("bytes %d-%d/%d", start, end, total)})
	}
	if s.CType != "" {
		rest = append(rest, Field{"Content-Type", s.CType})
	}
	if s.Coding != "" {
		rest = append(rest, Field{"Content-Encoding", s.Coding})
	}
	rest = append(rest, framingLines(rng, s, !noWire, o)...)
	rng.Shuffle(len(rest), func(i, j int) { rest[i], rest[j] = rest[j], rest[i] })
	s.Headers = rest
	if noWire {
		// what a HEAD / 304 announces is the length of the representation; nothing is transferred
		s.Trailers, s.Declared = nil, false
	}
	return s
}
