// Package tunx holds helpers shared by the C04 (blind CONNECT tunnel) and C07
// (shutdown) property binaries: an in-memory listener that keeps both ends of
// every connection, a raw HTTP head reader, a martian goroutine census and a
// bounded "await by quiescence" helper.
package tunx

import (
	"bufio"
	"errors"
	"fmt"
	"net"
	"strconv"
	"strings"
	"sync"
	"sync/atomic"
	"time"

	"verifharness/internal/vh"
)

// ---------------------------------------------------------------------------
// in-memory listener that remembers the server ends

// Listener is an in-memory net.Listener; Dial returns both ends so that the
// harness can observe whether the proxy closed its end.
type Listener struct {
	ch     chan net.Conn
	done   chan struct{}
	once   sync.Once
	addr   string
	nextID int64
	// Wrap, if set before Serve starts, is applied to every accepted
	// connection (e.g. to make its Close observable and slow).
	Wrap func(net.Conn) net.Conn
}

type addr string

func (a addr) Network() string { return "tcp" }
func (a addr) String() string  { return string(a) }

// NewListener returns an in-memory listener with the given address string.
func NewListener(a string) *Listener {
	return &Listener{ch: make(chan net.Conn, 4096), done: make(chan struct{}), addr: a}
}

// Accept implements net.Listener.
func (l *Listener) Accept() (net.Conn, error) {
	select {
	case <-l.done:
		return nil, net.ErrClosed
	default:
	}
	select {
	case c := <-l.ch:
		if l.Wrap != nil {
			return l.Wrap(c), nil
		}
		return c, nil
	case <-l.done:
		return nil, net.ErrClosed
	}
}

// Close implements net.Listener. Connections that were dialled but never
// accepted are closed, as a kernel does with its accept queue.
func (l *Listener) Close() error {
	l.once.Do(func() { close(l.done) })
	l.drain()
	return nil
}

func (l *Listener) drain() {
	for {
		select {
		case c := <-l.ch:
			c.Close()
		default:
			return
		}
	}
}

// Addr implements net.Listener.
func (l *Listener) Addr() net.Addr { return addr(l.addr) }

// Closed reports whether Close was called.
func (l *Listener) Closed() bool {
	select {
	case <-l.done:
		return true
	default:
		return false
	}
}

// Pending is the number of dialled connections not yet accepted.
func (l *Listener) Pending() int { return len(l.ch) }

// Dial creates a connection with per-direction capacity cap and queues the
// server end for Accept. prep (may be nil) is called with the server end
// before it becomes visible to the accepting side (e.g. to set Seg). Dial
// fails once the listener is closed.
func (l *Listener) Dial(capacity int, prep func(server *vh.PipeConn)) (client, server *vh.PipeConn, err error) {
	id := atomic.AddInt64(&l.nextID, 1)
	client, server = vh.Pipe(capacity, "10.9.8.7:"+strconv.Itoa(int(20000+id%40000)), l.addr)
	if prep != nil {
		prep(server)
	}
	select {
	case <-l.done:
		return nil, nil, errors.New("tunx: listener closed")
	default:
	}
	select {
	case l.ch <- server:
		select {
		case <-l.done:
			l.drain() // lost the race with Close: nobody will accept it
		default:
		}
		return client, server, nil
	case <-l.done:
		return nil, nil, errors.New("tunx: listener closed")
	}
}

// ---------------------------------------------------------------------------
// raw HTTP head

// Head is a response (or request) head read from the wire by harness code.
type Head struct {
	Line    string
	Headers []string // raw "Name: value" lines
	Raw     int      // bytes including the final CRLF CRLF
}

// Status parses "HTTP/1.x NNN ..." and returns NNN (0 if malformed).
func (h *Head) Status() int {
	f := strings.SplitN(h.Line, " ", 3)
	if len(f) < 2 || !strings.HasPrefix(f[0], "HTTP/1.") {
		return 0
	}
	n, err := strconv.Atoi(f[1])
	if err != nil {
		return 0
	}
	return n
}

// Get returns the values of header name (case-insensitive).
func (h *Head) Get(name string) []string {
	var out []string
	for _, l := range h.Headers {
		i := strings.IndexByte(l, ':')
		if i < 0 {
			continue
		}
		if strings.EqualFold(strings.TrimSpace(l[:i]), name) {
			out = append(out, strings.TrimSpace(l[i+1:]))
		}
	}
	return out
}

// HasToken reports whether a comma-separated header contains token.
func (h *Head) HasToken(name, token string) bool {
	for _, v := range h.Get(name) {
		for _, t := range strings.Split(v, ",") {
			if strings.EqualFold(strings.TrimSpace(t), token) {
				return true
			}
		}
	}
	return false
}

// ReadHead reads one message head (start line, header lines, empty line).
func ReadHead(br *bufio.Reader) (*Head, error) {
	h := &Head{}
	first := true
	for {
		l, err := br.ReadString('\n')
		h.Raw += len(l)
		if err != nil {
			return h, err
		}
		l = strings.TrimRight(l, "\r\n")
		if first {
			if l == "" {
				continue // tolerate a leading empty line
			}
			h.Line = l
			first = false
			continue
		}
		if l == "" {
			return h, nil
		}
		h.Headers = append(h.Headers, l)
		if len(h.Headers) > 200 {
			return h, fmt.Errorf("too many header lines")
		}
	}
}

// ---------------------------------------------------------------------------
// goroutine census

// Handlers returns the martian goroutines other than the accept loop
// ((*Proxy).Serve): connection handlers, tunnel copiers, request readers.
func Handlers() []vh.G {
	var out []vh.G
	for _, g := range vh.MartianGoroutines() {
		if g.HasFrame("martian/v3.(*Proxy).Serve") || g.HasFrame("martian/v3/trafficshape.(*Bucket).loop") {
			continue // the accept loop; the tickers of a trafficshape listener that is still open
		}
		out = append(out, g)
	}
	return out
}

// HandlersString renders Handlers for a witness.
func HandlersString() []string {
	var out []string
	for _, g := range Handlers() {
		out = append(out, g.String())
	}
	return out
}

// ---------------------------------------------------------------------------
// bounded waiting

// Budget bounds how many stuck waits per signature are decided by the full
// quiescence window in one process; later ones of the same signature are
// decided by shorter windows (4 identical all-parked samples over 0.6 s, after
// five of those 3 samples over 0.1 s). They only add to a count: the violation
// has already been established by the full window on an earlier case, and a
// replay of any single case always uses the full window.
type Budget struct {
	mu    sync.Mutex
	full  map[string]int
	short map[string]int
	Max   int
}

// NewBudget returns a budget of max full-window verdicts per signature.
func NewBudget(max int) *Budget {
	return &Budget{full: map[string]int{}, short: map[string]int{}, Max: max}
}

// Result of Budget.Await.
type Result struct {
	Outcome vh.Outcome
	Witness string
	Short   bool // decided by the short window (signature already established)
}

// Await waits for cond by quiescence. sig is the signature that a Stuck
// outcome would be reported under.
func (b *Budget) Await(sig string, cond func() bool, activity func() string) Result {
	b.mu.Lock()
	n := b.full[sig]
	short := b.short[sig]
	b.mu.Unlock()
	need, step := 4, 150*time.Millisecond
	if short >= 5 {
		need, step = 3, 40*time.Millisecond
	}
	if n >= b.Max {
		// The full window has already produced Max verdicts for this
		// signature in this process: use a short window to keep the run
		// bounded. cond is polled throughout.
		deadline := time.Now().Add(20 * time.Second)
		same, last := 0, "\x00"
		for time.Now().Before(deadline) {
			if cond() {
				return Result{Outcome: vh.Happened}
			}
			fp, blocked := vh.Fingerprint(activity)
			if blocked && fp == last {
				same++
				if same >= need {
					if cond() {
						return Result{Outcome: vh.Happened}
					}
					b.mu.Lock()
					b.short[sig]++
					b.mu.Unlock()
					return Result{Outcome: vh.Stuck, Witness: fp, Short: true}
				}
			} else {
				same, last = 1, fp
				if !blocked {
					same = 0
				}
			}
			end := time.Now().Add(step)
			for time.Now().Before(end) {
				if cond() {
					return Result{Outcome: vh.Happened}
				}
				time.Sleep(10 * time.Millisecond)
			}
		}
		// still moving: fall through to the full window
	}
	o, w := vh.Await(cond, vh.AwaitOpts{Activity: activity, Watchdog: 120 * time.Second})
	if o == vh.Stuck {
		b.mu.Lock()
		b.full[sig]++
		b.mu.Unlock()
	}
	return Result{Outcome: o, Witness: w}
}

// WitnessLines trims a fingerprint for a report.
func WitnessLines(fp string) []string {
	ls := strings.Split(fp, "\n")
	if len(ls) > 40 {
		ls = append(ls[:40], fmt.Sprintf("... %d more", len(ls)-40))
	}
	return ls
}
