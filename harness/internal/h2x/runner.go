package h2x

import (
	"encoding/json"
	"fmt"
	"os"
	"strings"
	"time"

	mlog "github.com/google/martian/v3/log"
	"github.com/google/martian/v3/verifhook"

	"verifharness/internal/vh"
)

// Sizes of a tier.
type Sizes struct {
	Batches, PerBatch         int
	RaceBatches, PerRaceBatch int
	Pf                        Profile
}

func sizes(prop, tier string) Sizes {
	th := tier == "thorough"
	switch prop {
	case "C08":
		if th {
			return Sizes{16, 500, 10, 40, Profile{Prop: prop, MaxStreams: 8, MaxData: 2 << 20}}
		}
		return Sizes{8, 40, 2, 15, Profile{Prop: prop, MaxStreams: 4, MaxData: 64 << 10}}
	default:
		if th {
			return Sizes{16, 400, 8, 40, Profile{Prop: prop, MaxStreams: 8, MaxData: 1 << 20}}
		}
		return Sizes{8, 30, 2, 15, Profile{Prop: prop, MaxStreams: 4, MaxData: 96 << 10}}
	}
}

// Main is the entry point of the C08 and C09 binaries.
func Main(prop string) {
	mlog.SetLevel(-1)
	if os.Getenv("H2X_LOG") != "" {
		mlog.SetLevel(mlog.Error)
	}
	verifhook.Set(HookPoint)
	p := &vh.Prop{ID: prop, Level: "exploration", RaceFiles: []string{"/h2/"}}
	if prop == "C08" {
		p.Rule = "sessions through h2.Config.Proxy between two raw http2.Framer endpoints (in-memory client pipe with per-Read segmentation, loopback TLS h2 server writing PRNG-sized records); " +
			"each session is a PRNG-generated RFC-valid script per direction (HEADERS/CONTINUATION cuts, padding, priority, DATA, trailers, RST_STREAM, PRIORITY, PUSH_PROMISE, SETTINGS, PING, GOAWAY over 1..K interleaved streams) plus a receiver window schedule; " +
			"the receiver's per-stream event sequence (header blocks decoded with its own HPACK decoder in arrival order) is compared with the sender's log; " +
			"a class is (fragmentation x padding x priority x stream-count x observed window situation {never-blocked, blocked-then-opened, trailers-behind-blocked-data, other-headers-while-blocked} x transport segmentation) as observed by the monitor in a completed session"
		p.Assumptions = []string{
			"SETTINGS, PING and GOAWAY are each compared as an ordered sequence of contents per frame type (SETTINGS acknowledgements included); no order is demanded across types or relative to stream frames",
			"DATA frame boundaries, padding and the number of CONTINUATION frames at the receiver are free; empty DATA frames without END_STREAM are not events",
			"a direction of a stream whose receiver has sent RST_STREAM is only required to be a prefix (the receiver may no longer grant credit)",
			"the harness sender respects both 65 535 + the relay's WINDOW_UPDATEs and the INITIAL_WINDOW_SIZE of forwarded SETTINGS; HEADER_TABLE_SIZE / MAX_FRAME_SIZE / INITIAL_WINDOW_SIZE are lowered only between phases with nothing queued or in flight and a PING barrier",
			"completion ('nothing is missing') is decided by vh.Await quiescence after ample credit; a watchdog firing while the system is active is inconclusive",
		}
	} else {
		p.Rule = "same harness as C08 restricted to DATA / SETTINGS / WINDOW_UPDATE histories (never-indexed header fields, no CONTINUATION, whole preface, so C08's defects do not interfere); " +
			"receiver ledger (every DATA frame's flow-controlled length <= stream and connection window granted so far, every frame <= MAX_FRAME_SIZE), sender ledger (credit returned == flow-controlled length sent, per stream and connection, never more at any time, equal at quiescence) and the weak no-strand clause at every controller step, after exact-credit grants and after ample credit; " +
			"a class is (receiver window class x WINDOW_UPDATE granularity x SETTINGS change {none, raise, lower, both} x padding x stream-count x blocked-observed) of a completed session"
		p.Assumptions = []string{
			"windows / MAX_FRAME_SIZE are lowered only between phases when every byte sent has been delivered (PING barrier before the ledger is lowered); increases take effect in the ledger before the SETTINGS / WINDOW_UPDATE frame is written",
			"no-strand is the deliberately weak form of DESIGN.md: premise = stream credit >= the stream's undelivered bytes and connection credit >= all undelivered bytes; decided by quiescence (vh.Await), never by a timer",
			"credit is compared in flow-controlled bytes (frame length including pad-length octet and padding) as the statement says",
		}
	}
	p.Plan = func(tier string, seed int64) []vh.Batch {
		z := sizes(prop, tier)
		var bs []vh.Batch
		for i := 0; i < z.Batches; i++ {
			bs = append(bs, vh.Batch{Name: fmt.Sprintf("s-%d", i), TimeoutS: 1200})
		}
		for i := 0; i < z.RaceBatches; i++ {
			bs = append(bs, vh.Batch{Name: fmt.Sprintf("race-%d", i), Race: true, TimeoutS: 1500})
		}
		return bs
	}
	p.Run = func(r *vh.Run, batch string) {
		z := sizes(prop, r.Tier)
		n := z.PerBatch
		if strings.HasPrefix(batch, "race-") {
			n = z.PerRaceBatch
		}
		var slow time.Duration
		for i := 0; i < n; i++ {
			c := Case{Kind: "session", Stream: strings.ToLower(prop) + "-" + batch, Idx: i, Pf: z.Pf, Hook: i%3 == 1}
			// a fixed share of every run: scenario by case index, debug logging in every fourth case
			scns := Scenarios[prop]
			c.Scn = scns[i%len(scns)]
			if prop == "C09" && i%16 == 15 {
				c.Scn = "backlog" // > 1 MiB queued on one stream: the most expensive scenario, half the share
			}
			c.Debug = i%4 == 3
			r.Case(c)
			v0, t0 := r.Violations(), time.Now()
			RunCase(r, c, i == 0 && batch == "s-0")
			if r.Violations() > v0 {
				// liveness violations are decided by quiescence and take ~10 s each; once a batch has
				// spent four minutes in violating sessions the rest of its list is skipped (the run is
				// failing anyway) so that a badly broken tree does not hit the batch watchdog
				if slow += time.Since(t0); slow > 4*time.Minute {
					r.Count("cases_skipped_after_slow_violations", int64(n-i-1))
					break
				}
			}
		}
		if batch == "s-0" {
			// fixed hand-written sessions (regressions)
			for _, name := range map[string][]string{"C08": {"control", "priority-behind-negative-window", "push-promise-continuation", "headers-empty-first-fragment", "two-table-size-updates"}, "C09": {"max-frame-size-lowered-with-queued-data"}}[prop] {
				c := Case{Kind: "session", Stream: strings.ToLower(prop) + "-probe", Pf: z.Pf, Probe: name}
				r.Case(c)
				RunCase(r, c, false)
			}
		}
	}
	p.Replay = func(r *vh.Run, raw json.RawMessage) {
		var c Case
		if err := json.Unmarshal(raw, &c); err != nil || c.Kind != "session" {
			r.Inconclusive("unrecognised case", string(raw))
			return
		}
		for i := 0; i < 5 && r.Violations() == 0; i++ {
			RunCase(r, c, false)
		}
	}
	vh.Main(p)
}

var xnetProbe = map[string]bool{"push-promise-continuation": true, "headers-empty-first-fragment": true, "two-table-size-updates": true}

func bucketN(n int) string {
	switch {
	case n <= 1:
		return "1"
	case n <= 3:
		return "2-3"
	}
	return "4+"
}

func incBucket(v uint32) string {
	switch {
	case v == 0:
		return "none"
	case v == 1:
		return "1B"
	case v <= 1000:
		return "small"
	case v <= 70000:
		return "frame"
	}
	return "huge"
}

// Describe renders the plan for witnesses and samples.
func (p *Plan) Describe(max int) map[string]interface{} {
	var phs []interface{}
	for _, ph := range p.Phases {
		m := map[string]interface{}{}
		for e := 0; e < 2; e++ {
			var ops []string
			for i, o := range ph.Ops[e] {
				if i >= max {
					ops = append(ops, fmt.Sprintf("... %d more", len(ph.Ops[e])-max))
					break
				}
				ops = append(ops, o.String())
			}
			m[[...]string{"client_ops", "server_ops"}[e]] = ops
			m[[...]string{"client_ctl", "server_ctl"}[e]] = fmt.Sprintf("%+v exact=%v ample=%v", ph.Ctl[e], ph.EndExact[e], ph.EndAmple[e])
		}
		m["after"] = fmt.Sprintf("%+v", ph.After)
		phs = append(phs, m)
	}
	return map[string]interface{}{"preface_first_read": p.PrefaceCut, "seg_client": p.SegC, "seg_server": p.SegS,
		"init": fmt.Sprintf("%+v", p.Init), "window_class": p.WinClass, "granularity": p.Gran, "phases": phs}
}

// RunCase generates and runs one session and reports into r.
func RunCase(r *vh.Run, c Case, sample bool) {
	var s *Session
	for attempt := 0; attempt < 3; attempt++ {
		plan := Gen(r.Rng(c.Stream, c.Idx), c.Pf, c.Scn)
		if c.Probe != "" {
			if plan = probePlan(c.Probe); plan == nil {
				r.Inconclusive("unknown probe", c.Probe)
				return
			}
		}
		s = &Session{Plan: plan, Case: c, Prop: c.Pf.Prop}
		s.Run()
		if len(s.Findings) > 0 || s.Completed {
			break
		}
		// not completed without a finding of ours: inconclusive, retry
	}
	r.Eval(1)
	r.Count("frames_observed", s.Events)
	r.Count("data_bytes_compared", s.BytesCompared)
	if s.ProxyLeaked {
		r.Count("proxy_did_not_return_at_teardown", 1)
	}
	for _, f := range s.Findings {
		w := map[string]interface{}{"detail": f.Witness, "plan": s.Plan.Describe(40)}
		sig := c.Pf.Prop + ":" + f.Clause + ":" + f.Class
		if c.Probe != "" && xnetProbe[c.Probe] {
			sig = c.Pf.Prop + ":x-net-limit:" + c.Probe
			w["observed_as"] = f.Clause + ":" + f.Class
		}
		r.ViolationCase(c, sig, f.What, w)
	}
	if len(s.Findings) > 0 {
		return
	}
	if !s.Completed {
		why := "session did not complete and no clause of this property was violated"
		var det []string
		det = append(det, s.Inconc...)
		for _, f := range s.Foreign {
			det = append(det, "other property's clause "+f.Clause+":"+f.Class+": "+f.What)
		}
		r.SetCase(c)
		r.Inconclusive(why, det)
		return
	}
	for _, f := range s.Foreign {
		r.Count("other_property_clause_"+f.Clause, 1)
	}
	pl := s.Plan
	ns := bucketN(len(s.tr[0]))
	if c.Pf.Prop == "C08" {
		frag, pad, prio := "none", "none", false
		hp, dp := false, false
		for _, e := range s.ep {
			if e.obsCont {
				frag = "continuation"
			}
			hp = hp || e.obsHdrPad
			dp = dp || e.obsDataPad
			prio = prio || e.obsPrio
		}
		for _, e := range s.ep {
			if e.obsEmptyFrag {
				frag = "continuation+empty-fragment"
			}
		}
		switch {
		case hp && dp:
			pad = "headers+data"
		case hp:
			pad = "headers"
		case dp:
			pad = "data"
		}
		win := "never-blocked"
		switch {
		case s.OtherHdrWhileBlocked && s.TrailersBehind:
			win = "trailers-behind+other-headers-while-blocked"
		case s.OtherHdrWhileBlocked:
			win = "other-headers-while-blocked"
		case s.TrailersBehind:
			win = "trailers-behind-blocked-data"
		case s.Blocked:
			win = "blocked-then-opened"
		}
		if s.ConnBound {
			win += "+connection-window-limited"
		}
		seg := pl.SegC + "/" + pl.SegS
		if pl.PrefaceCut > 0 {
			seg += "+split-preface"
		}
		r.Class(fmt.Sprintf("frag=%s|pad=%s|prio=%v|streams=%s|win=%s|seg=%s", frag, pad, prio, ns, win, seg))
		if c.Scn != "" {
			r.Count("scenario_"+c.Scn, 1)
		}
		if c.Debug {
			r.Count("sessions_with_debug_logs", 1)
		}
		if pl.NPush > 0 {
			r.Count("sessions_with_push_promise", 1)
		}
	} else {
		for x, e := range s.ep {
			if len(s.tr[1-x]) == 0 {
				continue
			}
			pad := s.ep[1-x].obsDataPad
			r.Class(fmt.Sprintf("win=%s|gran=%s|settings=%s|pad=%v|streams=%s|blocked=%v", pl.WinClass[x], incBucket(e.maxIncSent), pl.SetChange, pad, ns, s.Blocked))
		}
		if s.ConnBound {
			r.Count("sessions_connection_window_bound", 1)
		}
		if c.Scn != "" {
			r.Count("scenario_"+c.Scn, 1)
		}
	}
	if s.Blocked {
		r.Count("sessions_with_blocked_data", 1)
	}
	if s.NegWindowGrants > 0 {
		r.Count("grants_into_negative_windows", int64(s.NegWindowGrants))
	}
	if s.GatedGrants > 0 {
		r.Count("gated_grants", int64(s.GatedGrants))
	}
	if sample {
		r.Sample(map[string]interface{}{"case": c, "plan": pl.Describe(12), "frames_observed": s.Events, "bytes_compared": s.BytesCompared})
	}
}
