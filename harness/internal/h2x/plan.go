package h2x

import (
	"bytes"
	"fmt"
	"math/rand"
	"strings"

	"golang.org/x/net/http2"
	"golang.org/x/net/http2/hpack"
)

// Profile selects the generator flavour. A case is (Profile, rng stream, index).
type Profile struct {
	Prop       string `json:"prop"`        // "C08" or "C09"
	MaxStreams int    `json:"max_streams"` // client-initiated streams per session
	MaxData    int    `json:"max_data"`    // DATA payload bytes per direction
}

// Case identifies one session; the plan is regenerated from the seed.
type Case struct {
	Kind   string  `json:"kind"` // "session"
	Stream string  `json:"stream"`
	Idx    int     `json:"idx"`
	Pf     Profile `json:"profile"`
	Hook   bool    `json:"hook"`            // PRNG sleeps at the relay hook points
	Scn    string  `json:"scn,omitempty"`   // scenario forced for this case (a fixed share of every run), see Scenarios
	Debug  bool    `json:"debug,omitempty"` // h2.Config.EnableDebugLogs (martian logging stays silenced)
	Probe  string  `json:"probe,omitempty"` // one of Probes: a hand-written session instead of a generated one
}

// Field is one header field of a generated header list.
type Field struct {
	N string `json:"n"`
	V string `json:"v"`
	S bool   `json:"s,omitempty"` // never-indexed
}

type OpKind int

const (
	OpHeaders OpKind = iota
	OpData
	OpRst
	OpPriority
	OpPush
	OpWU // WINDOW_UPDATE scripted in the sender's list (early grant)
	OpSettings
	OpPing
	OpGoAway
)

var opNames = [...]string{"HEADERS", "DATA", "RST_STREAM", "PRIORITY", "PUSH_PROMISE", "WINDOW_UPDATE", "SETTINGS", "PING", "GOAWAY"}

// Op is one scripted frame (a header block with its CONTINUATIONs is one Op).
type Op struct {
	K          OpKind
	T          int    // track number during generation
	S          uint32 // stream id (0 for connection frames)
	Fields     []Field
	NCont      int   // CONTINUATION frames after the HEADERS/PUSH_PROMISE
	CutSeed    int64 // PRNG seed for the cut points
	EmptyOK    bool  // empty fragments allowed
	EmptyFirst bool  // probe only: the HEADERS frame itself carries an empty fragment
	Pad        int   // -1 none; DATA: >=0 padded with that many bytes; HEADERS/PP: >0 padded
	End        bool
	Prio       *http2.PriorityParam
	N          int // DATA payload length
	Code       uint32
	Promised   uint32
	PT         int // promised track
	Settings   []http2.Setting
	Ping       [8]byte
	Debug      []byte
	Last       uint32
	WaitHdr    bool     // server: wait for the client's HEADERS on S first
	WaitPP     bool     // client: wait for the PUSH_PROMISE announcing S first
	WaitOpen   []uint32 // GOAWAY: wait until the peer has opened / promised all these streams
	Inc        uint32   // OpWU increment
	Edge       int      // >0: pad the field list so that the encoded block is (receiver's MAX_FRAME_SIZE - (Edge-1)) bytes long
	Late       bool     // scenario neg-window: sent after the receiver has lowered INITIAL_WINDOW_SIZE
	Phase      int
}

func (o *Op) String() string {
	s := fmt.Sprintf("%s s=%d", opNames[o.K], o.S)
	switch o.K {
	case OpHeaders, OpPush:
		s += fmt.Sprintf(" fields=%d cont=%d pad=%d end=%v prio=%v", len(o.Fields), o.NCont, o.Pad, o.End, o.Prio != nil)
		if o.K == OpPush {
			s += fmt.Sprintf(" promised=%d", o.Promised)
		}
	case OpData:
		s += fmt.Sprintf(" n=%d pad=%d end=%v", o.N, o.Pad, o.End)
	case OpRst:
		s += fmt.Sprintf(" code=%d", o.Code)
	}
	return s
}

// Step is one action of a receiver's window controller within a phase.
type Step struct {
	After int    // fire once the peer's sender has completed this many ops of the phase
	SF    bool   // act "exact": stream-level grants before the connection-level one
	Act   string // "wu"
	S     uint32 // stream (0 = connection)
	T     int
	Inc   uint32
	Rep   int
}

// Change is a SETTINGS change made between phases by endpoint E (with a PING barrier).
type Change struct {
	E     int
	ID    http2.SettingID
	Val   uint32
	Lower bool
	// Dup, if set, is sent in the same SETTINGS frame before Val under the same identifier (RFC 7540
	// 6.5.3: values are processed in order, the last one is effective); only used when nothing is queued
	Dup *uint32
	// probe only: lower without draining, once exactly WaitRecv payload bytes have been received
	NoDrain  bool
	WaitRecv int64
	// with NoDrain: wait (without granting anything) until everything sent so far has been delivered
	WaitDelivered bool
}

type Phase struct {
	Ops      [2][]*Op
	Ctl      [2][]Step
	ExactSF  [2]bool // exact-credit grants: stream-level WINDOW_UPDATEs before the connection-level one
	EndExact [2]bool // receiver grants exactly the missing credit at the end of the phase (then no-strand is checked)
	EndAmple [2]bool // receiver grants ample credit at the end of the phase
	After    []Change
}

type Init struct {
	Settings  []http2.Setting
	ConnBoost uint32
	Replenish bool
}

// Plan is the full generated session.
type Plan struct {
	PrefaceCut int
	SegC, SegS string
	SegSeed    int64
	Init       [2]Init
	WinClass   [2]string
	Gran       [2]string
	SetChange  string // none | raise | lower | both
	BigFrames  [2]bool
	Phases     []*Phase
	NStreams   int
	SlowWriter bool    // the relay's writer goroutines are slowed down at the beforeSend hook point
	PipeCap    int     // capacity of the in-memory client connection (0 = 1 MiB)
	SlowReader [2]bool // the endpoint's reader pauses before every frame (a destination that is slow to accept bytes)
	Scn        string
	NPush      int
}

type track struct {
	ops     []*Op
	enabled bool
	id      uint32
}

var namePool = []string{"accept", "accept-encoding", "user-agent", "cookie", "content-type", "x-trace-id", "x-a", "x-b", "x-c", "x-d", "x-e", "x-f", "te", "authorization", "x-long-header-name-for-the-dynamic-table"}
var valuePool = []string{"", "a", "gzip, deflate", "application/grpc", "trailers", "verif-harness/1.0", "0123456789abcdef0123456789abcdef", "session=abcdef; path=/", "text/html; charset=utf-8", "v"}

func randString(rng *rand.Rand, n int) string {
	const al = "abcdefghijklmnopqrstuvwxyzABCDEFGHIJKLMNOPQRSTUVWXYZ0123456789-_.~ /;=,"
	b := make([]byte, n)
	for i := range b {
		b[i] = al[rng.Intn(len(al))]
	}
	return string(b)
}

func genFields(rng *rand.Rand, pf Profile, kind string, tag int) []Field {
	var fs []Field
	c09 := pf.Prop == "C09"
	switch kind {
	case "req", "push":
		fs = append(fs, Field{N: ":method", V: []string{"GET", "POST", "PUT"}[rng.Intn(3)]},
			Field{N: ":scheme", V: "https"},
			Field{N: ":path", V: fmt.Sprintf("/%s/%d", []string{"one", "two", "svc.Test/Echo"}[rng.Intn(3)], tag)},
			Field{N: ":authority", V: "upstream.example"})
	case "resp":
		fs = append(fs, Field{N: ":status", V: []string{"200", "204", "404", "500"}[rng.Intn(4)]})
	case "info":
		fs = append(fs, Field{N: ":status", V: "100"})
	case "trailer":
		fs = append(fs, Field{N: "grpc-status", V: fmt.Sprint(rng.Intn(17))})
	}
	n := rng.Intn(6)
	if c09 {
		n = rng.Intn(2)
	}
	for i := 0; i < n; i++ {
		f := Field{N: namePool[rng.Intn(len(namePool))]}
		switch x := rng.Intn(20); {
		case x < 9:
			f.V = valuePool[rng.Intn(len(valuePool))]
		case x < 16:
			f.V = randString(rng, 1+rng.Intn(60))
		case x < 19:
			f.V = fmt.Sprintf("t%d-%s", tag, randString(rng, rng.Intn(300)))
		default:
			if !c09 && kind != "push" {
				f.V = randString(rng, 8000+rng.Intn(30000)) // forces CONTINUATION on the relay's output
			}
		}
		if rng.Intn(5) == 0 {
			f.N = fmt.Sprintf("x-h%d", rng.Intn(40))
		}
		f.S = rng.Intn(10) == 0
		fs = append(fs, f)
	}
	if c09 && kind == "trailer" && rng.Intn(5) == 0 {
		// a block larger than one frame (trailers always carry END_STREAM, so C08's continuation
		// defect does not interfere): the relay must cut it to the receiver's MAX_FRAME_SIZE
		fs = append(fs, Field{N: "x-big-trailer", V: randString(rng, 17000+rng.Intn(30000))})
	}
	if c09 {
		// never-indexed fields: C09 sessions do not depend on HPACK state
		for i := range fs {
			fs[i].S = true
		}
	}
	return fs
}

func genPrio(rng *rand.Rand, self int) *http2.PriorityParam {
	p := &http2.PriorityParam{Weight: uint8(rng.Intn(256)), Exclusive: rng.Intn(3) == 0}
	if rng.Intn(2) == 0 {
		d := uint32(1 + 2*rng.Intn(8))
		p.StreamDep = d
	}
	if p.IsZero() {
		p.Weight = 7
	}
	_ = self
	return p
}

func dataSize(rng *rand.Rand) int {
	switch x := rng.Intn(100); {
	case x < 6:
		return 0
	case x < 12:
		return 1
	case x < 32:
		return 2 + rng.Intn(99)
	case x < 60:
		return 100 + rng.Intn(4900)
	case x < 72:
		return 16384
	case x < 80:
		return 16383 - rng.Intn(300)
	}
	return rng.Intn(16385)
}

func pick(rng *rand.Rand, xs ...string) string { return xs[rng.Intn(len(xs))] }

// Scenarios are forced, by case index, onto a fixed share of every run (the
// remaining cases draw everything at random, which can produce the same shapes).
var Scenarios = map[string][]string{
	"C08": {"resplit", "slowdest", "connlimited", "bighdr", "earlygrant", "goaway", "", ""},
	"C09": {"bidi", "raise-queued-end", "edge-size", "connlimited", "exact-heavy", "dup-settings", "earlygrant", "neg-window", ""},
}

// Gen draws a session plan. All choices come from rng.
func Gen(rng *rand.Rand, pf Profile, scn string) *Plan {
	c09 := pf.Prop == "C09"
	p := &Plan{SegSeed: rng.Int63()}
	if !c09 && rng.Intn(4) == 0 {
		p.PrefaceCut = 1 + rng.Intn(23)
	}
	p.SegC = pick(rng, "full", "full", "small", "byte", "mixed")
	p.SegS = pick(rng, "full", "full", "small", "byte", "mixed")
	p.Scn = scn
	p.SlowWriter = (rng.Intn(6) == 0 && scn == "") || scn == "slowdest" // never combined with another forced scenario
	nPh := 1 + rng.Intn(3)
	K := 1 + rng.Intn(pf.MaxStreams)
	if rng.Intn(3) == 0 && K > 2 {
		K = 1 + rng.Intn(2)
	}
	// side: the receiver a scenario is about (its peer is the sender concerned)
	side := rng.Intn(2)
	switch scn {
	case "bidi":
		K, nPh = 1+rng.Intn(2), 1
	case "backlog":
		K, nPh = 1, 1
	case "raise-queued-end":
		K, nPh = 1+rng.Intn(2), 2
	case "neg-window":
		K, nPh = 1+rng.Intn(2), 2
	case "connlimited":
		if c09 {
			// several streams share the connection window: grants that are too small for all of them
			K = 2 + rng.Intn(3)
			if K > pf.MaxStreams {
				K = pf.MaxStreams
			}
		}
	case "bighdr":
		side = 0 // the client connection is the in-memory one: its capacity and read pace are ours
		p.PipeCap = 4096
		p.SlowReader[0] = true
	}
	p.NStreams = K

	// ---- receiver window classes and SETTINGS schedule ---------------------
	iws := [2][]int64{}
	mfs := [2][]int64{}
	hts := [2][]int64{} // -1 = never announced
	for e := 0; e < 2; e++ {
		cls := pick(rng, "auto", "auto", "zero", "one", "tiny", "tiny", "default", "large", "large", "connlimited", "connlimited")
		if cls == "zero" && nPh < 2 {
			nPh = 2
		}
		if p.SlowWriter && !c09 && rng.Intn(5) != 0 {
			// slow destination: prefer windows that hold many frames back and large stream-level grants
			// released while the sender is still sending on the stream (batches of released frames)
			cls = pick(rng, "tiny", "tiny", "one")
		}
		switch scn {
		case "connlimited", "backlog":
			if e == side {
				cls = "connlimited"
			}
		case "bidi":
			cls = pick(rng, "tiny", "tiny", "one")
		case "raise-queued-end":
			if e == side {
				cls = "tiny"
			}
		case "exact-heavy":
			if e == side {
				cls = "default"
			}
		case "neg-window":
			if e == side {
				cls = "negwin"
			}
		case "bighdr":
			if e != side {
				cls = "auto" // the many small DATA frames toward the block sender keep flowing
			}
		case "earlygrant":
			if e == 0 {
				cls = pick(rng, "tiny", "tiny", "one", "default")
			}
		}
		p.WinClass[e] = cls
		p.Gran[e] = pick(rng, "1B", "small", "small", "frame", "frame", "huge")
		if scn == "connlimited" && c09 && e == side {
			p.Gran[e] = pick(rng, "frame", "frame", "small")
		}
		if p.SlowWriter && !c09 {
			p.Gran[e] = pick(rng, "frame", "huge", "huge")
		}
	}
	// scenario "MAX_FRAME_SIZE lowered while larger DATA frames are queued in the relay": the receiver
	// `resplit` announces a large MAX_FRAME_SIZE, the sender uses frames above 16 384, the receiver's
	// window (never replenished) holds some of them back, and after phase 0 the receiver lowers
	// MAX_FRAME_SIZE without draining first. C08's clauses do not depend on when the relay applies
	// the new size, so this is sound for C08 (C09 keeps the drained rule for its frame-size clause).
	resplit := -1
	if !c09 && (rng.Intn(8) == 0 || scn == "resplit") {
		resplit = rng.Intn(2)
		p.WinClass[resplit] = pick(rng, "default", "default", "connlimited")
		nPh = 2 // everything is sent in phase 0; phase 1 only opens the windows after the lowering
	}
	raise, lower := false, false
	for e := 0; e < 2; e++ {
		iws[e] = make([]int64, nPh)
		mfs[e] = make([]int64, nPh)
		hts[e] = make([]int64, nPh)
		var v int64
		switch p.WinClass[e] {
		case "auto":
			v = []int64{65535, 65535, 1 << 20}[rng.Intn(3)]
			p.Init[e].Replenish = true
			if rng.Intn(2) == 0 {
				p.Init[e].ConnBoost = 1 << 20
			}
		case "zero":
			v = 0
		case "one":
			v = 1
		case "tiny":
			v = []int64{100, 100, int64(2 + rng.Intn(2000))}[rng.Intn(3)]
		case "default":
			v = 65535
		case "negwin":
			// a few thousand bytes, most of which are used before INITIAL_WINDOW_SIZE is lowered below them
			v = int64(2000 + rng.Intn(3000))
		case "connlimited":
			// stream windows ample from the start (the final ample-credit step then grants nothing
			// per stream); only the connection window, opened by stream-0 WINDOW_UPDATEs alone, limits
			v = 1 << 30
		case "large":
			v = 1 << 20
			if rng.Intn(3) == 0 {
				p.Init[e].ConnBoost = uint32(1 << uint(14+rng.Intn(8)))
			}
		}
		m := int64(16384)
		if rng.Intn(4) == 0 {
			m = []int64{16385, 32768, 65536, 1 << 20}[rng.Intn(4)]
		}
		if e == resplit {
			m = []int64{32768, 65536, 1 << 20}[rng.Intn(3)]
		}
		h := int64(-1)
		if !c09 && rng.Intn(3) == 0 {
			h = []int64{0, 64, 256, 4096, 65536}[rng.Intn(5)]
		}
		for ph := 0; ph < nPh; ph++ {
			iws[e][ph], mfs[e][ph], hts[e][ph] = v, m, h
			if ph == nPh-1 {
				break
			}
			// changes after phase ph
			chg := rng.Intn(100)
			lim := 30
			if c09 {
				lim = 60
			}
			if scn == "neg-window" && e == side && ph == 0 {
				// everything sent in phase 0 has been delivered and not been credited back; the new value
				// is below it, so the stream windows become negative (RFC 7540 6.9.2)
				nv := int64(1 + rng.Intn(int(v)/8))
				p.addChange(ph, Change{E: e, ID: http2.SettingInitialWindowSize, Val: uint32(nv), Lower: true, NoDrain: true, WaitDelivered: true}, nPh)
				v = nv
				lower = true
			} else if scn == "raise-queued-end" && e == side && ph == 0 {
				// the whole stream incl. END_STREAM is queued behind the tiny stream window; the receiver
				// then opens it by raising INITIAL_WINDOW_SIZE (no WINDOW_UPDATE)
				nv := int64(1 << 20)
				p.addChange(ph, Change{E: e, ID: http2.SettingInitialWindowSize, Val: uint32(nv)}, nPh)
				v = nv
				raise = true
			} else if p.WinClass[e] == "zero" && ph == 0 {
				nv := []int64{1, 100, 5000, 65535}[rng.Intn(4)]
				p.addChange(ph, Change{E: e, ID: http2.SettingInitialWindowSize, Val: uint32(nv)}, nPh)
				v = nv
				raise = true
			} else if chg < lim && p.WinClass[e] != "connlimited" && !(e == resplit && ph == 0) {
				var nv int64
				if rng.Intn(2) == 0 {
					nv = v*2 + int64(rng.Intn(70000))
					if nv > 1<<24 {
						nv = 1 << 24
					}
				} else {
					nv = v / int64(2+rng.Intn(3))
					if nv < 1 {
						nv = int64(1 + rng.Intn(50))
					}
				}
				if nv != v {
					if nv < v {
						lower = true
					} else {
						raise = true
					}
					ch := Change{E: e, ID: http2.SettingInitialWindowSize, Val: uint32(nv), Lower: nv < v}
					if ch.Lower && rng.Intn(4) == 0 {
						d := []uint32{0, 1, 60000, 1 << 20}[rng.Intn(4)]
						if d != ch.Val {
							ch.Dup = &d
						}
					}
					p.addChange(ph, ch, nPh)
					v = nv
				}
			}
			if e == resplit && ph == 0 {
				nm := []int64{16384, 16384, 20000}[rng.Intn(3)]
				lower = true
				p.addChange(ph, Change{E: e, ID: http2.SettingMaxFrameSize, Val: uint32(nm), Lower: true, NoDrain: true}, nPh)
				m = nm
			} else if rng.Intn(100) < lim/2 {
				nm := []int64{16384, 20000, 32768, 1 << 20}[rng.Intn(4)]
				if nm != m {
					if nm < m {
						lower = true
					} else {
						raise = true
					}
					p.addChange(ph, Change{E: e, ID: http2.SettingMaxFrameSize, Val: uint32(nm), Lower: nm < m}, nPh)
					m = nm
				}
			}
			// at most one HEADER_TABLE_SIZE announcement per endpoint and session: two changes with no
			// header block in between make the peer's encoder emit two dynamic table size updates at the
			// start of its next block, which x/net's 2019 hpack.Decoder (used by the relay) rejects;
			// exercised by the separate x-net-limit probes instead
			if !c09 && h < 0 && rng.Intn(4) == 0 {
				nh := []int64{0, 100, 4096, 20000}[rng.Intn(4)]
				cur := h
				if cur < 0 {
					cur = 4096
				}
				if nh != cur {
					p.addChange(ph, Change{E: e, ID: http2.SettingHeaderTableSize, Val: uint32(nh), Lower: nh < cur}, nPh)
					h = nh
				}
			}
		}
		// initial SETTINGS frame of endpoint e
		var st []http2.Setting
		if iws[e][0] != 65535 || rng.Intn(3) == 0 || scn == "dup-settings" {
			st = append(st, http2.Setting{ID: http2.SettingInitialWindowSize, Val: uint32(iws[e][0])})
		}
		if mfs[e][0] != 16384 || rng.Intn(4) == 0 {
			st = append(st, http2.Setting{ID: http2.SettingMaxFrameSize, Val: uint32(mfs[e][0])})
		}
		if hts[e][0] >= 0 {
			st = append(st, http2.Setting{ID: http2.SettingHeaderTableSize, Val: uint32(hts[e][0])})
		}
		if rng.Intn(3) == 0 {
			st = append(st, http2.Setting{ID: http2.SettingMaxConcurrentStreams, Val: uint32(100 + rng.Intn(1000))})
		}
		if e == 0 && rng.Intn(4) == 0 {
			st = append(st, http2.Setting{ID: http2.SettingEnablePush, Val: 1})
		}
		rng.Shuffle(len(st), func(i, j int) { st[i], st[j] = st[j], st[i] })
		// the same identifier twice in one frame: legal, processed in order, the last value counts
		// (only in the initial SETTINGS, where nothing can be queued yet)
		if rng.Intn(5) == 0 || scn == "dup-settings" {
			for i, x := range st {
				var dup uint32
				switch x.ID {
				case http2.SettingInitialWindowSize:
					dup = []uint32{0, 1, 100, 60000, 65535, 1 << 20}[rng.Intn(6)]
				case http2.SettingMaxFrameSize:
					dup = []uint32{16384, 32768, 1 << 20}[rng.Intn(3)]
				default:
					continue
				}
				if dup != x.Val {
					at := rng.Intn(i + 1)
					st = append(st[:at], append([]http2.Setting{{ID: x.ID, Val: dup}}, st[at:]...)...)
				}
				break
			}
		}
		p.Init[e].Settings = st
		p.BigFrames[e] = rng.Intn(2) == 0 || resplit == 1-e
	}
	switch {
	case raise && lower:
		p.SetChange = "both"
	case raise:
		p.SetChange = "raise"
	case lower:
		p.SetChange = "lower"
	default:
		p.SetChange = "none"
	}
	for len(p.Phases) < nPh {
		p.Phases = append(p.Phases, &Phase{})
	}

	// ---- tracks -----------------------------------------------------------
	perStream := pf.MaxData / K
	type streamPlan struct {
		kind   int // 1 normal, 2 client resets, 3 server resets
		cl, sv *track
		push   []*track // promised tracks (server side)
		clPush [][]*Op  // client ops on the promised stream
	}
	var tracksC, tracksS []*track
	var sps []*streamPlan
	padLeft := [2]int{12000, 12000} // C08: total DATA padding overhead per direction
	nextT := 0
	newTrack := func() (*track, int) {
		nextT++
		return &track{enabled: true}, nextT
	}
	genBody := func(e, t int, budget int, canEnd bool) (ops []*Op, ended bool) {
		n := rng.Intn(7)
		if c09 {
			n = 1 + rng.Intn(12)
		}
		if rng.Intn(6) == 0 {
			n += 10 + rng.Intn(20)
		}
		if p.SlowWriter && !c09 {
			n += 20 + rng.Intn(25) // batches larger than the relay's 15-slot output channel
		}
		// toward a connection-window-limited receiver: enough full-size frames to exhaust 65 535
		// with a positive remainder (65 535 = 3 x 16 384 + 16 383)
		heavy := p.WinClass[1-e] == "connlimited" || (c09 && p.WinClass[1-e] == "default")
		small := false
		switch scn {
		case "bidi":
			n, small = 10+rng.Intn(15), true // both directions of the stream keep needing credit
		case "raise-queued-end":
			if 1-e == side {
				n, small = 5+rng.Intn(10), true
			}
		case "bighdr":
			if e == side {
				n, small = 30+rng.Intn(30), true // each DATA frame makes the relay write WINDOW_UPDATEs to us
			}
		case "backlog":
			if 1-e == side {
				heavy = true
				n = 85 + rng.Intn(30) // > 1 MiB of full-size frames on one stream
				budget = 4 << 20
			}
		}
		if heavy && scn != "backlog" {
			n = 4 + rng.Intn(8)
			if budget < 262144/K {
				budget = 262144 / K
			}
		}
		if scn == "neg-window" && 1-e == side {
			// first part: 50-100 % of the receiver's stream window, delivered before the lowering;
			// late part: sent afterwards, queued in the relay behind the negative window
			rem := int(iws[side][0]) * (50 + rng.Intn(51)) / 100
			for rem > 0 {
				sz := 1 + rng.Intn(600)
				if sz > rem {
					sz = rem
				}
				rem -= sz
				ops = append(ops, &Op{K: OpData, T: t, N: sz, Pad: -1})
			}
			for i := 5 + rng.Intn(8); i > 0; i-- {
				ops = append(ops, &Op{K: OpData, T: t, N: 1 + rng.Intn(300), Pad: -1, Late: true})
			}
			return ops, false
		}
		big := resplit == 1-e
		if big {
			n = 4 + rng.Intn(6)
			if budget < 262144/K {
				budget = 262144 / K
			}
		}
		for i := 0; i < n && budget >= 0; i++ {
			sz := dataSize(rng)
			if heavy && rng.Intn(10) < 7 {
				sz = 16384
			}
			if big && rng.Intn(10) < 6 {
				sz = 16385 + rng.Intn(16384)
			}
			if small {
				sz = 1 + rng.Intn(200)
			}
			if p.SlowWriter && !c09 && !big && !heavy && rng.Intn(10) < 8 {
				sz = 1 + rng.Intn(120) // many small frames: long queues behind tiny windows
			}
			if p.BigFrames[e] && rng.Intn(6) == 0 {
				sz = 16385 + rng.Intn(16000)
			}
			if sz > budget {
				sz = budget
				if sz == 0 && i > 0 {
					break
				}
			}
			budget -= sz
			o := &Op{K: OpData, T: t, N: sz, Pad: -1}
			padP := 5
			if c09 {
				padP = 2
			}
			if rng.Intn(padP) == 0 {
				o.Pad = []int{0, 1, 255, rng.Intn(256), rng.Intn(20)}[rng.Intn(5)]
			}
			ops = append(ops, o)
			if rng.Intn(9) == 0 {
				ops = append(ops, &Op{K: OpPriority, T: t, Prio: genPrio(rng, t)})
			}
		}
		return ops, false
	}
	edgeN := rng.Intn(9)
	genHeaders := func(e, t int, kind string, end bool) *Op {
		o := &Op{K: OpHeaders, T: t, Fields: genFields(rng, pf, kind, t), End: end, Pad: -1, CutSeed: rng.Int63()}
		if !c09 {
			if rng.Intn(2) == 0 {
				o.NCont = 1 + rng.Intn(4)
				o.EmptyOK = rng.Intn(3) == 0
			}
			if rng.Intn(4) == 0 {
				o.Pad = 1 + rng.Intn(255)
			}
		}
		if (kind == "req" || kind == "resp") && rng.Intn(3) == 0 {
			o.Prio = genPrio(rng, t)
		}
		switch scn {
		case "bighdr":
			if 1-e == side && kind != "info" {
				// every block of this sender is larger than a frame: the relay writes HEADERS + CONTINUATION
				o.Fields = append(o.Fields, Field{N: "x-big", V: randString(rng, 17000+rng.Intn(25000)), S: rng.Intn(2) == 0})
			}
		case "edge-size":
			if kind == "req" || kind == "resp" {
				// HEADERS with priority whose encoded block ends within 0..8 bytes of the receiver's
				// MAX_FRAME_SIZE (sized when the phase, hence that limit, is known)
				o.Prio = genPrio(rng, t)
				edgeN++
				o.Edge = 1 + edgeN%9
			}
		}
		return o
	}
	finish := func(t int, ops []*Op, e int) []*Op {
		// end of a direction of a stream: END_STREAM on last DATA, on an empty DATA, or trailers
		last := len(ops) - 1
		for last >= 0 && ops[last].K != OpData {
			last--
		}
		x := rng.Intn(10)
		if resplit == 1-e && x < 7 {
			x = 0 // END_STREAM on the (possibly large) last DATA frame
		}
		switch {
		case x < 3 && last >= 0 && last == len(ops)-1:
			ops[last].End = true
		case x < 6:
			ops = append(ops, &Op{K: OpData, T: t, N: 0, Pad: -1, End: true})
		default:
			ops = append(ops, genHeaders(e, t, "trailer", true))
		}
		return ops
	}
	for i := 0; i < K; i++ {
		sp := &streamPlan{kind: 1}
		if !c09 {
			switch x := rng.Intn(10); {
			case x == 0:
				sp.kind = 2
			case x == 1:
				sp.kind = 3
			}
		}
		// client side
		cl, ct := newTrack()
		var ops []*Op
		if !c09 && rng.Intn(8) == 0 {
			ops = append(ops, &Op{K: OpPriority, T: ct, Prio: genPrio(rng, ct)})
		}
		noBody := rng.Intn(5) == 0 && !c09
		h := genHeaders(0, ct, "req", false)
		ops = append(ops, h)
		if rng.Intn(6) == 0 || scn == "earlygrant" {
			// early grant: stream-level WINDOW_UPDATE right after the request HEADERS, before anything
			// has travelled in the opposite direction on this stream (as curl/nghttp2 do); 2^30 covers
			// any body, so the final ample-credit step grants nothing more on the stream
			ops = append(ops, &Op{K: OpWU, T: ct, Inc: []uint32{1 << 30, 1 << 30, uint32(70000 + rng.Intn(1<<20))}[rng.Intn(3)]})
		}
		if noBody && sp.kind != 2 && rng.Intn(2) == 0 {
			h.End = true
		} else {
			if !noBody {
				b, _ := genBody(0, ct, perStream, true)
				ops = append(ops, b...)
			}
			if sp.kind == 2 {
				hi := 0
				for k, o := range ops {
					if o.K == OpHeaders {
						hi = k
						break
					}
				}
				ops = ops[:hi+1+rng.Intn(len(ops)-hi)]
				ops = append(ops, &Op{K: OpRst, T: ct, Code: rstCode(rng)})
			} else {
				ops = finish(ct, ops, 0)
			}
		}
		if !c09 && rng.Intn(8) == 0 {
			ops = append(ops, &Op{K: OpPriority, T: ct, Prio: genPrio(rng, ct)})
		}
		cl.ops = ops
		sp.cl = cl
		tracksC = append(tracksC, cl)
		// server side (same track number: same stream)
		sv := &track{enabled: true}
		var sops []*Op
		if rng.Intn(6) != 0 || sp.kind == 3 {
			if sp.kind == 3 && rng.Intn(3) == 0 {
				sops = append(sops, &Op{K: OpRst, T: ct, Code: rstCode(rng)})
			} else {
				if !c09 && rng.Intn(8) == 0 {
					sops = append(sops, genHeaders(1, ct, "info", false))
				}
				hs := genHeaders(1, ct, "resp", false)
				sops = append(sops, hs)
				if rng.Intn(6) == 0 && sp.kind != 3 && !c09 {
					hs.End = true
				} else {
					b, _ := genBody(1, ct, perStream, true)
					sops = append(sops, b...)
					if sp.kind == 3 {
						sops = sops[:1+rng.Intn(len(sops))]
						sops = append(sops, &Op{K: OpRst, T: ct, Code: rstCode(rng)})
					} else {
						// pushes hang off normal streams only
						if sp.kind == 1 && !c09 && rng.Intn(4) == 0 {
							np := 1 + rng.Intn(2)
							for j := 0; j < np; j++ {
								pt, ptn := newTrack()
								pt.enabled = false
								var pops []*Op
								ph := genHeaders(1, ptn, "resp", false)
								pops = append(pops, ph)
								if rng.Intn(4) == 0 {
									ph.End = true
								} else {
									b, _ := genBody(1, ptn, perStream/2, true)
									pops = append(pops, b...)
									if rng.Intn(6) == 0 {
										pops = append(pops, &Op{K: OpRst, T: ptn, Code: rstCode(rng)})
									} else {
										pops = finish(ptn, pops, 1)
									}
								}
								pt.ops = pops
								pp := &Op{K: OpPush, T: ct, PT: ptn, Fields: genFields(rng, pf, "push", ptn), Pad: -1, CutSeed: rng.Int63()}
								// no CONTINUATION after PUSH_PROMISE: x/net's http2.Framer (used by the relay and
								// by the harness endpoints) rejects that sequence on read; see notes/C08.md
								if rng.Intn(4) == 0 {
									pp.Pad = 1 + rng.Intn(255)
								}
								// insert the promise somewhere after the response HEADERS
								at := 1 + rng.Intn(len(sops))
								sops = append(sops[:at], append([]*Op{pp}, sops[at:]...)...)
								sp.push = append(sp.push, pt)
								var cops []*Op
								switch rng.Intn(4) {
								case 0:
									cops = append(cops, &Op{K: OpRst, T: ptn, Code: rstCode(rng), WaitPP: true})
								case 1:
									cops = append(cops, &Op{K: OpPriority, T: ptn, Prio: genPrio(rng, ptn), WaitPP: true})
								}
								sp.clPush = append(sp.clPush, cops)
								tracksS = append(tracksS, pt)
								pt.id = uint32(ptn) // temporarily the track number
								p.NPush++
							}
						}
						sops = finish(ct, sops, 1)
					}
				}
			}
		}
		for _, o := range sops {
			if o.T == ct {
				o.WaitHdr = true
			}
		}
		sv.ops = sops
		sv.id = uint32(ct)
		cl.id = uint32(ct)
		sp.sv = sv
		tracksS = append(tracksS, sv)
		sps = append(sps, sp)
	}

	// ---- connection-level ops sprinkled into each endpoint's list ----------
	connOps := func(e int) []*Op {
		var ops []*Op
		n := rng.Intn(3)
		if scn == "bighdr" && e != side {
			n = 8 + rng.Intn(8) // PING / SETTINGS written directly to the destination of the big blocks
		}
		for i := 0; i < n; i++ {
			switch rng.Intn(3) {
			case 0:
				o := &Op{K: OpPing}
				rng.Read(o.Ping[:])
				o.Ping[0] = 'P' // barrier pings start with 'B'
				ops = append(ops, o)
			case 1:
				var st []http2.Setting
				for k := rng.Intn(3); k > 0; k-- {
					switch rng.Intn(3) {
					case 0:
						st = append(st, http2.Setting{ID: http2.SettingMaxConcurrentStreams, Val: uint32(100 + rng.Intn(100000))})
					case 1:
						st = append(st, http2.Setting{ID: http2.SettingMaxHeaderListSize, Val: uint32(1<<20 + rng.Intn(1<<20))})
					case 2:
						st = append(st, http2.Setting{ID: http2.SettingID(0x10 + rng.Intn(200)), Val: rng.Uint32()})
					}
				}
				ops = append(ops, &Op{K: OpSettings, Settings: st})
			case 2:
				o := &Op{K: OpPing}
				rng.Read(o.Ping[:])
				o.Ping[0] = 'Q'
				ops = append(ops, o)
			}
		}
		return ops
	}

	// ---- merge the tracks of each endpoint, assign ids and phases -----------
	merge := func(trs []*track, extra []*Op) []*Op {
		var out []*Op
		byNum := map[int]*track{}
		for _, t := range trs {
			if len(t.ops) > 0 {
				byNum[int(t.id)] = t
			}
		}
		for {
			var av []*track
			for _, t := range trs {
				if t.enabled && len(t.ops) > 0 {
					av = append(av, t)
				}
			}
			if len(av) == 0 {
				break
			}
			t := av[rng.Intn(len(av))]
			// bursts keep some per-stream locality
			burst := 1 + rng.Intn(3)
			for burst > 0 && len(t.ops) > 0 {
				o := t.ops[0]
				t.ops = t.ops[1:]
				out = append(out, o)
				burst--
				if o.K == OpPriority && len(t.ops) > 0 && t.ops[0].K == OpHeaders {
					burst++ // a PRIORITY that precedes the opening HEADERS stays adjacent to it
				}
				if o.K == OpPush {
					for _, q := range trs {
						if int(q.id) == o.PT {
							q.enabled = true
						}
					}
				}
			}
		}
		for _, o := range extra {
			at := rng.Intn(len(out) + 1)
			// never between a pre-open PRIORITY and its HEADERS
			for at > 0 && at < len(out) && out[at-1].K == OpPriority && out[at].K == OpHeaders && out[at-1].T == out[at].T {
				at++
			}
			out = append(out[:at], append([]*Op{o}, out[at:]...)...)
		}
		return out
	}
	cl := merge(tracksC, connOps(0))
	ids := map[int]uint32{}
	next := uint32(1)
	for _, o := range cl {
		if o.K >= OpSettings {
			continue
		}
		if _, ok := ids[o.T]; !ok {
			ids[o.T] = next
			next += 2
		}
	}
	sv := merge(tracksS, connOps(1))
	nextP := uint32(2)
	for _, o := range sv {
		if o.K == OpPush {
			ids[o.PT] = nextP
			nextP += 2
		}
	}
	// phases for the client list: random monotone cuts
	openPhase := map[int]int{}
	ph := 0
	for i, o := range cl {
		if ph < nPh-1 && rng.Intn(len(cl)/nPh+1) == 0 && i > 0 {
			// do not cut between a pre-open PRIORITY and its HEADERS
			if !(cl[i-1].K == OpPriority && o.K == OpHeaders && cl[i-1].T == o.T) {
				ph++
			}
		}
		o.Phase = ph
		if o.K == OpHeaders {
			if _, ok := openPhase[o.T]; !ok {
				openPhase[o.T] = ph
			}
		}
	}
	ph = 0
	ppPhase := map[int]int{}
	for _, o := range sv {
		if ph < nPh-1 && rng.Intn(len(sv)/nPh+1) == 0 {
			ph++
		}
		if o.K < OpSettings && o.WaitHdr {
			if op, ok := openPhase[o.T]; ok && op > ph {
				ph = op
			}
		}
		o.Phase = ph
		if o.K == OpPush {
			ppPhase[o.PT] = ph
		}
	}
	if resplit >= 0 || scn == "raise-queued-end" {
		for _, o := range cl {
			o.Phase = 0
		}
		for _, o := range sv {
			o.Phase = 0
		}
		for k := range openPhase {
			openPhase[k] = 0
		}
		for k := range ppPhase {
			ppPhase[k] = 0
		}
	}
	if scn == "neg-window" {
		for e2, list := range [2][]*Op{cl, sv} {
			late := map[int]bool{}
			for _, o := range list {
				o.Phase = 0
				if 1-e2 == side && o.K < OpSettings {
					if o.Late {
						late[o.T] = true
					}
					if late[o.T] {
						o.Phase = 1
					}
				}
			}
		}
		for k := range openPhase {
			openPhase[k] = 0
		}
		for k := range ppPhase {
			ppPhase[k] = 0
		}
	}
	// client ops on promised streams
	for _, sp := range sps {
		for j, cops := range sp.clPush {
			pt := int(sp.push[j].id)
			for _, o := range cops {
				o.Phase = ppPhase[pt] + rng.Intn(nPh-ppPhase[pt])
				cl = append(cl, o) // placed at the end of its phase below
			}
		}
	}
	for e, list := range [2][]*Op{cl, sv} {
		for _, o := range list {
			if o.K < OpSettings {
				o.S = ids[o.T]
			}
			if o.K == OpPush {
				o.Promised = ids[o.PT]
			}
			if o.Prio != nil && o.Prio.StreamDep == o.S {
				o.Prio.StreamDep = 0
				if o.Prio.IsZero() {
					o.Prio.Weight = 9
				}
			}
			p.Phases[o.Phase].Ops[e] = append(p.Phases[o.Phase].Ops[e], o)
		}
	}

	// GOAWAY somewhere in the last phase (frames on existing streams may follow it). It is written
	// only after the peer has opened / promised all its streams, so that nobody opens a stream after
	// receiving GOAWAY; debug data of varied lengths.
	for e := 0; e < 2; e++ {
		if c09 || (rng.Intn(3) != 0 && scn != "goaway") {
			continue
		}
		o := &Op{K: OpGoAway, Code: uint32(rng.Intn(14)), Phase: nPh - 1}
		dl := rng.Intn(4)
		if scn == "goaway" {
			dl = 2
		}
		switch dl {
		case 0:
		case 1:
			o.Debug = []byte(randString(rng, 1+rng.Intn(16)))
		default:
			o.Debug = []byte(randString(rng, 17+rng.Intn(200)))
		}
		list := p.Phases[nPh-1].Ops[e]
		min := 0
		if e == 0 {
			o.Last = nextP - 2
			for t := range ids {
				if id := ids[t]; id%2 == 0 {
					o.WaitOpen = append(o.WaitOpen, id)
				}
			}
			for i, x := range list {
				if x.K == OpHeaders {
					min = i + 1 // after the client's last opening HEADERS (the server's promises wait for them)
				}
			}
		} else {
			o.Last = next - 2
			for t := range ids {
				if id := ids[t]; id%2 == 1 {
					o.WaitOpen = append(o.WaitOpen, id)
				}
			}
		}
		at := min + rng.Intn(len(list)-min+1)
		for at > 0 && at < len(list) && list[at-1].K == OpPriority && list[at].K == OpHeaders && list[at-1].S == list[at].S {
			at++
		}
		list = append(list[:at], append([]*Op{o}, list[at:]...)...)
		p.Phases[nPh-1].Ops[e] = list
	}

	// ---- clamp DATA sizes to the window/frame caps of their phase -----------
	for phi, phs := range p.Phases {
		for e := 0; e < 2; e++ {
			rcv := 1 - e
			cap := iws[rcv][phi]
			if cap > 65535 {
				cap = 65535
			}
			fmax := int64(16384)
			if p.BigFrames[e] && mfs[rcv][phi] > 16384 {
				fmax = mfs[rcv][phi]
				if fmax > 32768 {
					fmax = 32768
				}
			}
			maxL := cap
			if fmax < maxL {
				maxL = fmax
			}
			for _, o := range phs.Ops[e] {
				if o.K == OpHeaders && o.Edge > 0 {
					sizeToEdge(o, int(mfs[rcv][phi])-(o.Edge-1))
				}
				if o.K != OpData {
					continue
				}
				if !c09 && o.Pad >= 0 {
					// C08 keeps DATA padding inside a budget and away from small windows so that the
					// workload does not depend on how padding credit is returned (C09's subject)
					ov := 1 + o.Pad
					if cap < 65535 || padLeft[e] < ov {
						o.Pad = -1
					} else {
						padLeft[e] -= ov
						if int64(o.N+ov) > 16384 {
							o.N = 16384 - ov
						}
					}
				}
				if maxL == 0 {
					o.N, o.Pad = 0, -1
					continue
				}
				ov := 0
				if o.Pad >= 0 {
					ov = 1 + o.Pad
					if int64(ov) > maxL {
						o.Pad = int(maxL) - 1
						ov = 1 + o.Pad
					}
				}
				if int64(o.N+ov) > maxL {
					o.N = int(maxL) - ov
				}
			}
		}
	}

	// ---- receiver controllers ------------------------------------------------
	for phi, phs := range p.Phases {
		for x := 0; x < 2; x++ {
			y := 1 - x
			n := len(phs.Ops[y])
			lastPhase := phi == nPh-1
			if p.Init[x].Replenish {
				phs.EndAmple[x] = true
				continue
			}
			// streams the peer sends DATA on, known up to this phase
			var cand []uint32
			seen := map[uint32]bool{}
			for q := 0; q <= phi; q++ {
				for _, o := range p.Phases[q].Ops[y] {
					if o.K == OpData && !seen[o.S] {
						seen[o.S] = true
						cand = append(cand, o.S)
					}
				}
			}
			ns := rng.Intn(5)
			if c09 {
				ns = rng.Intn(9)
			}
			if p.SlowWriter && !c09 {
				ns = 1 + rng.Intn(2) // gated grants only, late in the phase, so that long queues build up
			}
			if x == resplit && phi == 0 {
				ns = 0 // the window stays shut until MAX_FRAME_SIZE has been lowered
			}
			if scn == "bidi" || ((scn == "backlog" || scn == "raise-queued-end") && x == side) {
				ns = 0 // nothing is granted while the scripts run
			}
			if scn == "connlimited" && c09 && x == side {
				ns = 2 + rng.Intn(3)
			}
			if scn == "neg-window" && x == side {
				ns = 0
				if phi == 1 {
					ns = 2 + rng.Intn(3) // partial repayments of the deficit
				}
			}
			var steps []Step
			for i := 0; i < ns && n > 0; i++ {
				st := Step{After: rng.Intn(n + 1), Act: "wu", Rep: 1}
				if len(cand) > 0 && (rng.Intn(3) != 0 || (p.SlowWriter && !c09)) {
					st.S = cand[rng.Intn(len(cand))]
				}
				switch p.Gran[x] {
				case "1B":
					st.Inc = 1
					st.Rep = 1 + rng.Intn(40)
				case "small":
					st.Inc = uint32(1 + rng.Intn(200))
					st.Rep = 1 + rng.Intn(3)
				case "frame":
					st.Inc = uint32(16384 - 200 + rng.Intn(400))
				case "huge":
					st.Inc = uint32(1<<20 + rng.Intn(1<<26))
				}
				if c09 && (rng.Intn(3) == 0 || (scn == "exact-heavy" && x == side && rng.Intn(3) != 0)) {
					// exactly the credit that is missing right now, stream-level or connection-level first
					st.Act, st.SF = "exact", rng.Intn(2) == 0
				}
				if p.SlowWriter && !c09 {
					st.After = n/2 + rng.Intn(n-n/2)
					// hold the relay's writers at the hook gate, release the stream with the most DATA held
					// back in one large grant, let the sender's next frames arrive, then open the gate
					st.Act = "gated"
				}
				if scn == "neg-window" && x == side {
					// a stream-level grant that does not exceed the deficit of the most negative stream
					// window (Inc = per mille of the deficit): the window stays closed
					st = Step{After: n/3 + rng.Intn(n-n/3+1), Act: "deficit", Inc: uint32(100 + rng.Intn(901)), Rep: 1}
				}
				if p.WinClass[x] == "connlimited" {
					st.S = 0 // connection-level credit only
					if st.Inc > 70000 {
						st.Inc = uint32(1 + rng.Intn(40000))
					}
					if rng.Intn(3) == 0 {
						st.Act = "connfit" // exactly what is missing: all but one byte, then one byte
					}
					if scn == "connlimited" && c09 {
						// room for one or two of the queued frames, not for those of all streams
						st.Act, st.Inc, st.Rep = "wu", uint32(17000+rng.Intn(30000)), 1
						st.After = 2*n/3 + rng.Intn(n-2*n/3+1) // late: frames of several streams are queued by then
					}
				}
				steps = append(steps, st)
			}
			// sort by trigger
			for i := 1; i < len(steps); i++ {
				for j := i; j > 0 && steps[j].After < steps[j-1].After; j-- {
					steps[j], steps[j-1] = steps[j-1], steps[j]
				}
			}
			phs.Ctl[x] = steps
			phs.EndExact[x] = c09 && rng.Intn(2) == 0
			phs.ExactSF[x] = rng.Intn(2) == 0
			phs.EndAmple[x] = lastPhase || rng.Intn(2) == 0
			if x == resplit && phi == 0 {
				phs.EndAmple[x] = false
			}
			if (scn == "raise-queued-end" || scn == "neg-window") && x == side && phi == 0 {
				phs.EndAmple[x], phs.EndExact[x] = false, false
			}
			if scn == "exact-heavy" && x == side {
				phs.EndExact[x] = true
			}
			for _, o := range phs.Ops[x] {
				if o.WaitPP {
					phs.EndAmple[x] = true // the promise may sit behind blocked DATA of its parent
				}
			}
		}
	}
	return p
}

func (p *Plan) addChange(ph int, c Change, nPh int) {
	for len(p.Phases) < nPh {
		p.Phases = append(p.Phases, &Phase{})
	}
	p.Phases[ph].After = append(p.Phases[ph].After, c)
}

func rstCode(rng *rand.Rand) uint32 {
	if rng.Intn(6) == 0 {
		return uint32(0x100 + rng.Intn(0xffff))
	}
	return uint32(rng.Intn(14))
}

// encodedLen is the length of the HPACK block a fresh encoder produces for fs.
// For lists of never-indexed fields (C09 sessions) it does not depend on the
// encoder's dynamic table, so it is also the length of the relay's re-encoding.
func encodedLen(fs []Field) int {
	var buf bytes.Buffer
	enc := hpack.NewEncoder(&buf)
	for _, f := range fs {
		enc.WriteField(hpack.HeaderField{Name: f.N, Value: f.V, Sensitive: f.S})
	}
	return buf.Len()
}

// sizeToEdge appends a never-indexed filler field so that the encoded block is
// exactly target bytes long ('X' has an 8-bit Huffman code, so the value is
// sent raw and the length is linear in the number of characters).
func sizeToEdge(o *Op, target int) {
	base := append([]Field(nil), o.Fields...)
	n := target - encodedLen(base) - 12
	if n < 1 {
		return
	}
	for i := 0; i < 8; i++ {
		fs := append(append([]Field(nil), base...), Field{N: "x-fill", V: strings.Repeat("X", n), S: true})
		d := target - encodedLen(fs)
		if d == 0 {
			o.Fields = fs
			return
		}
		n += d
		if n < 1 {
			return
		}
	}
}
