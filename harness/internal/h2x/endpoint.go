package h2x

import (
	"bytes"
	"fmt"
	"io"
	"math/rand"
	"os"
	"time"

	"golang.org/x/net/http2"
	"golang.org/x/net/http2/hpack"

	"verifharness/internal/vh"
)

func stampID(dir int, stream uint32) uint32 { return uint32(dir)<<23 | (stream & 0x7fffff) }

// ---------------------------------------------------------------------------
// control writer: frames produced by the reader goroutine (ACKs, automatic
// WINDOW_UPDATEs) are written by a separate goroutine so that the reader never
// blocks on a write.

func (e *endpoint) ctl(f func()) {
	e.ctlMu.Lock()
	e.ctlQ = append(e.ctlQ, f)
	e.ctlMu.Unlock()
	select {
	case e.ctlWake <- struct{}{}:
	default:
	}
}

func (e *endpoint) ctlLoop() {
	for {
		e.ctlMu.Lock()
		q := e.ctlQ
		e.ctlQ = nil
		e.ctlMu.Unlock()
		for _, f := range q {
			e.wmu.Lock()
			f()
			e.wmu.Unlock()
		}
		if len(q) > 0 {
			continue
		}
		e.s.mu.Lock()
		t := e.s.tearing
		e.s.mu.Unlock()
		if t {
			return
		}
		<-e.ctlWake
	}
}

// werr handles the result of a frame write.
func (e *endpoint) werr(err error, what string) {
	if err == nil {
		return
	}
	e.s.mu.Lock()
	e.s.connFail("write-failed", fmt.Sprintf("%s: writing %s toward the relay failed: %v", e.name(), what, err))
	e.s.mu.Unlock()
}

// ---------------------------------------------------------------------------
// sent log (all under s.mu)

func (e *endpoint) track(id uint32) *strack {
	t := e.s.tr[e.idx][id]
	if t == nil {
		t = &strack{}
		e.s.tr[e.idx][id] = t
	}
	return t
}

func (e *endpoint) logItem(id uint32, it *item) {
	it.sendSeq = e.s.tick()
	t := e.track(id)
	t.items = append(t.items, it)
	e.s.bump()
}

func (e *endpoint) logData(id uint32, n int64) {
	t := e.track(id)
	if n > 0 {
		if k := len(t.items); k > 0 && t.items[k-1].kind == 'D' {
			t.items[k-1].n += n
			e.s.tick()
		} else {
			t.items = append(t.items, &item{kind: 'D', n: n, sendSeq: e.s.tick()})
		}
		t.dataSent += n
	}
	e.s.noteBlocked(e.peer(), id)
	e.s.bump()
}

// noteBlocked records, for receiver x, whether data on stream id is certainly
// held back by x's windows (outstanding payload exceeds the credit x granted).
func (s *Session) noteBlocked(x *endpoint, id uint32) {
	und := x.undelivered(id)
	if und == 0 {
		delete(x.blockedSince(), id)
		return
	}
	if und > x.streamWin(id) {
		s.Blocked = true
		if _, ok := x.blockedSince()[id]; !ok {
			x.blockedSince()[id] = s.clock
		}
	} else if x.totalUndelivered() > x.connWin() {
		s.Blocked = true
		s.ConnBound = true
	}
}

func (e *endpoint) blockedSince() map[uint32]int64 {
	if e.blocked == nil {
		e.blocked = map[uint32]int64{}
	}
	return e.blocked
}

// ---------------------------------------------------------------------------
// reader

type pendingBlock struct {
	id       uint32
	push     bool
	promised uint32
	hasPrio  bool
	prio     http2.PriorityParam
	end      bool
	buf      []byte
	nCont    int
}

func (e *endpoint) readLoop() {
	var pend *pendingBlock
	if e.idx == 1 {
		// the relay forwards the client's connection preface first
		buf := make([]byte, len(preface))
		if _, err := io.ReadFull(e.s.srv, buf); err != nil || !bytes.Equal(buf, preface) {
			e.s.mu.Lock()
			e.readErr = err
			cls := "whole-preface"
			if e.s.Plan.PrefaceCut > 0 {
				cls = "split-read"
			}
			e.s.find("preface", cls, fmt.Sprintf("server did not receive the connection preface from the relay (err=%v, got %q)", err, buf), nil)
			e.s.mu.Unlock()
			return
		}
	}
	slow := e.s.Plan.SlowReader[e.idx]
	var nread uint64
	for {
		if slow {
			// a destination that is slow to accept bytes (the relay's writes toward us block)
			nread++
			x := (uint64(e.s.Plan.SegSeed) ^ nread*0x9e3779b97f4a7c15) >> 20
			time.Sleep(time.Duration(300+x%1200) * time.Microsecond)
		}
		f, err := e.fr.ReadFrame()
		if err != nil {
			e.s.mu.Lock()
			e.readErr = err
			if !e.s.tearing {
				if _, isConnErr := err.(http2.ConnectionError); !isConnErr && err != http2.ErrFrameTooLarge {
					e.s.connFail("closed-by-relay", fmt.Sprintf("%s: the relay closed the connection during the session: %v", e.name(), err))
				} else {
					e.s.find("order", "invalid-frame-sequence", fmt.Sprintf("%s: frame from the relay rejected by http2.Framer: %v (%v)", e.name(), err, e.fr.ErrorDetail()), nil)
				}
			}
			e.s.bump()
			e.s.mu.Unlock()
			return
		}
		e.s.mu.Lock()
		if e.s.failed {
			e.s.mu.Unlock()
			continue // aborted: keep draining so that the relay never blocks on us
		}
		pend = e.handle(f, pend)
		e.s.Events++
		e.s.bump()
		e.s.mu.Unlock()
	}
}

func fieldsEqual(a []Field, b []Field) bool {
	if len(a) != len(b) {
		return false
	}
	for i := range a {
		if a[i].N != b[i].N || a[i].V != b[i].V {
			return false
		}
	}
	return true
}

func fragClass(it *item) string {
	c := "single-frame"
	if it.nCont > 0 {
		c = "continued"
	}
	if it.padded {
		c += "+padded"
	}
	if it.prio != nil {
		c += "+priority"
	}
	return c
}

func short(fs []Field) []string {
	var out []string
	for i, f := range fs {
		if i >= 12 {
			out = append(out, "...")
			break
		}
		v := f.V
		if len(v) > 40 {
			v = v[:40] + fmt.Sprintf("...(%d)", len(f.V))
		}
		out = append(out, f.N+": "+v)
	}
	return out
}

// handle processes one frame from the relay (s.mu held).
func (e *endpoint) handle(f http2.Frame, pend *pendingBlock) *pendingBlock {
	s := e.s
	fh := f.Header()
	e.frames++
	d := 1 - e.idx // direction = index of the sender
	if int64(fh.Length) > e.mfs {
		s.find("frame-size", fh.Type.String(), fmt.Sprintf("%s received a %s frame of %d bytes; its SETTINGS_MAX_FRAME_SIZE is %d", e.name(), fh.Type, fh.Length, e.mfs), nil)
	}
	switch f := f.(type) {
	case *http2.DataFrame:
		id := fh.StreamID
		L := int64(fh.Length)
		if L > 0 {
			if sw := e.streamWin(id); L > sw {
				s.find("overrun-stream", "iws="+winBucket(e.iws), fmt.Sprintf("%s received DATA of flow-controlled length %d on stream %d with only %d bytes of stream window granted (INITIAL_WINDOW_SIZE %d + WINDOW_UPDATEs %d - received %d)", e.name(), L, id, sw, e.iws, e.wu[id], e.recvL[id]), nil)
			}
			if cw := e.connWin(); L > cw {
				s.find("overrun-conn", "iws="+winBucket(e.iws), fmt.Sprintf("%s received DATA of flow-controlled length %d on stream %d with only %d bytes of connection window granted (65535 + WINDOW_UPDATEs %d - received %d)", e.name(), L, id, cw, e.connWU, e.connRecvL), nil)
			}
		}
		e.recvL[id] += L
		e.connRecvL += L
		data := f.Data()
		t := s.tr[d][id]
		if t == nil {
			s.find("order", "unknown-stream", fmt.Sprintf("%s received DATA on stream %d on which the peer sent nothing", e.name(), id), nil)
			return pend
		}
		if n := int64(len(data)); n > 0 {
			it := t.peek()
			if it == nil || it.kind != 'D' || t.curOff+n > it.n {
				exp := "nothing more"
				if it != nil {
					exp = it.String()
					if it.kind == 'D' {
						exp = fmt.Sprintf("%d more DATA bytes", it.n-t.curOff)
					}
				}
				s.find("data", "misplaced-or-extra", fmt.Sprintf("%s received %d DATA bytes on stream %d where the sender's sequence has %s next", e.name(), n, id, exp), nil)
				return pend
			}
			want := make([]byte, n)
			vh.StampInto(want, stampID(d, id), t.dataRecv)
			if !bytes.Equal(want, data) {
				s.find("data", "bytes-differ", fmt.Sprintf("%s: DATA bytes on stream %d differ from what was sent at stream offset %d (+%d)", e.name(), id, t.dataRecv, vh.FirstDiff(want, data)), nil)
				return pend
			}
			t.curOff += n
			t.dataRecv += n
			s.BytesCompared += n
			s.noteBlocked(e, id)
		}
		if f.StreamEnded() {
			it := t.peek()
			if it == nil || it.kind != 'E' {
				s.find("end-stream", "invented-on-data", fmt.Sprintf("%s received END_STREAM on a DATA frame of stream %d where the sender's sequence has %v next", e.name(), id, it), nil)
				return pend
			}
			it.recvSeq = s.tick()
			t.cur++
			e.endRecv[id] = true
		}
		if e.replenish && L > 0 {
			closed := e.closedFor(id)
			e.ctl(func() {
				e.writeWU(0, uint32(L))
				if !closed {
					e.writeWU(id, uint32(L))
				}
			})
		}
	case *http2.HeadersFrame:
		p := &pendingBlock{id: fh.StreamID, hasPrio: f.HasPriority(), prio: f.Priority, end: f.StreamEnded(), buf: append([]byte(nil), f.HeaderBlockFragment()...)}
		if !f.HeadersEnded() {
			return p
		}
		e.block(p)
	case *http2.PushPromiseFrame:
		p := &pendingBlock{id: fh.StreamID, push: true, promised: f.PromiseID, buf: append([]byte(nil), f.HeaderBlockFragment()...)}
		if !f.HeadersEnded() {
			return p
		}
		e.block(p)
	case *http2.ContinuationFrame:
		if pend == nil {
			s.find("order", "invalid-frame-sequence", "CONTINUATION without a preceding header block", nil)
			return nil
		}
		pend.buf = append(pend.buf, f.HeaderBlockFragment()...)
		pend.nCont++
		if !f.HeadersEnded() {
			return pend
		}
		e.block(pend)
		return nil
	case *http2.RSTStreamFrame:
		id := fh.StreamID
		t := s.tr[d][id]
		var it *item
		if t != nil {
			it = t.peek()
		}
		if it == nil || it.kind != 'R' {
			s.find("order", "rst-unexpected", fmt.Sprintf("%s received RST_STREAM(%d) on stream %d where the sender's sequence has %v next", e.name(), f.ErrCode, id, it), nil)
			return pend
		}
		if it.code != uint32(f.ErrCode) {
			s.find("rst-code", "changed", fmt.Sprintf("%s received RST_STREAM code %d on stream %d, sent %d", e.name(), f.ErrCode, id, it.code), nil)
			return pend
		}
		it.recvSeq = s.tick()
		t.cur++
		e.rstRecv[id] = true
	case *http2.PriorityFrame:
		id := fh.StreamID
		t := s.tr[d][id]
		var it *item
		if t != nil {
			it = t.peek()
		}
		if it == nil || it.kind != 'P' {
			s.find("order", "priority-unexpected", fmt.Sprintf("%s received PRIORITY on stream %d where the sender's sequence has %v next", e.name(), id, it), nil)
			return pend
		}
		if *it.prio != f.PriorityParam {
			s.find("priority", "priority-frame", fmt.Sprintf("%s received PRIORITY %+v on stream %d, sent %+v", e.name(), f.PriorityParam, id, *it.prio), nil)
			return pend
		}
		it.recvSeq = s.tick()
		t.cur++
	case *http2.WindowUpdateFrame:
		id := fh.StreamID
		if id == 0 {
			e.connRet += int64(f.Increment)
			if e.connRet > e.connSentL {
				s.find("credit-excess", "connection", fmt.Sprintf("%s: the relay returned %d bytes of connection credit but only %d flow-controlled bytes were sent", e.name(), e.connRet, e.connSentL), nil)
			}
		} else {
			e.ret[id] += int64(f.Increment)
			if e.ret[id] > e.sentL[id] {
				s.find("credit-excess", "stream", fmt.Sprintf("%s: the relay returned %d bytes of credit on stream %d but only %d flow-controlled bytes were sent on it", e.name(), e.ret[id], id, e.sentL[id]), nil)
			}
		}
	case *http2.SettingsFrame:
		var got []http2.Setting
		f.ForeachSetting(func(st http2.Setting) error { got = append(got, st); return nil })
		ci := e.nextConn(cSettings)
		if ci == nil || ci.ack != f.IsAck() || !settingsEqual(ci.settings, got) {
			s.find("settings", "contents", fmt.Sprintf("%s received SETTINGS ack=%v %v, the peer's next SETTINGS frame was %s", e.name(), f.IsAck(), got, ci.str()), nil)
			return pend
		}
		e.connCur[cSettings]++
		if !f.IsAck() {
			for _, st := range got {
				switch st.ID {
				case http2.SettingInitialWindowSize:
					e.peerIWS = int64(st.Val)
				case http2.SettingMaxFrameSize:
					e.peerMFS = int64(st.Val)
				case http2.SettingHeaderTableSize:
					if debugLog {
						fmt.Printf("DEBUG %s got HEADER_TABLE_SIZE %d\n", e.name(), st.Val)
					}
					e.encMu.Lock()
					e.enc.SetMaxDynamicTableSizeLimit(st.Val)
					e.enc.SetMaxDynamicTableSize(st.Val)
					e.encMu.Unlock()
				}
			}
			e.ctl(func() {
				s.mu.Lock()
				e.connSent[cSettings] = append(e.connSent[cSettings], &connItem{ack: true})
				s.mu.Unlock()
				e.werr(e.fr.WriteSettingsAck(), "SETTINGS ack")
			})
		}
	case *http2.PingFrame:
		ci := e.nextConn(cPing)
		if ci == nil || ci.ack != f.IsAck() || ci.ping != f.Data {
			s.find("ping", "contents", fmt.Sprintf("%s received PING ack=%v %x, the peer's next PING was %s", e.name(), f.IsAck(), f.Data, ci.str()), nil)
			return pend
		}
		e.connCur[cPing]++
		if f.IsAck() {
			e.barrier[f.Data] = true
		} else {
			data := f.Data
			e.ctl(func() {
				s.mu.Lock()
				e.connSent[cPing] = append(e.connSent[cPing], &connItem{ack: true, ping: data})
				s.mu.Unlock()
				e.werr(e.fr.WritePing(true, data), "PING ack")
			})
		}
	case *http2.GoAwayFrame:
		ci := e.nextConn(cGoAway)
		if ci == nil || ci.last != f.LastStreamID || ci.code != uint32(f.ErrCode) || !bytes.Equal(ci.debug, f.DebugData()) {
			s.find("goaway", "contents", fmt.Sprintf("%s received GOAWAY last=%d code=%d debug=%q, the peer's next GOAWAY was %s", e.name(), f.LastStreamID, f.ErrCode, f.DebugData(), ci.str()), nil)
			return pend
		}
		e.connCur[cGoAway]++
	default:
		s.find("order", "unknown-frame-type", fmt.Sprintf("%s received a frame of type %v the peer never sent", e.name(), fh.Type), nil)
	}
	return pend
}

func (c *connItem) str() string {
	if c == nil {
		return "<none>"
	}
	return fmt.Sprintf("{ack=%v settings=%v ping=%x last=%d code=%d debug=%q}", c.ack, c.settings, c.ping, c.last, c.code, c.debug)
}

func settingsEqual(a, b []http2.Setting) bool {
	if len(a) != len(b) {
		return false
	}
	for i := range a {
		if a[i] != b[i] {
			return false
		}
	}
	return true
}

func (e *endpoint) nextConn(k int) *connItem {
	ps := e.peer().connSent[k]
	if e.connCur[k] < len(ps) {
		return ps[e.connCur[k]]
	}
	return nil
}

func winBucket(v int64) string {
	switch {
	case v == 0:
		return "0"
	case v == 1:
		return "1"
	case v < 65535:
		return "tiny"
	case v == 65535:
		return "default"
	}
	return "large"
}

// block handles a complete header block (HEADERS or PUSH_PROMISE), decoding it
// with this endpoint's own HPACK decoder in arrival order.
func (e *endpoint) block(p *pendingBlock) {
	s := e.s
	d := 1 - e.idx
	hf, derr := e.decodeBlock(p.buf)
	var got []Field
	for _, h := range hf {
		got = append(got, Field{N: h.Name, V: h.Value})
	}
	t := s.tr[d][p.id]
	var it *item
	if t != nil {
		it = t.peek()
	}
	kind, what := byte('H'), "HEADERS"
	if p.push {
		kind, what = 'U', "PUSH_PROMISE"
	}
	if it == nil || it.kind != kind {
		if derr == nil && t != nil && it != nil && it.kind == 'D' && t.curOff < it.n {
			s.find("data", "lost-before-headers", fmt.Sprintf("%s received %s on stream %d while %d DATA bytes sent before it are still missing", e.name(), what, p.id, it.n-t.curOff), nil)
			return
		}
		if derr == nil {
			s.find("order", "headers-unexpected", fmt.Sprintf("%s received %s on stream %d where the sender's sequence has %v next", e.name(), what, p.id, it), nil)
			return
		}
	}
	if derr != nil || it == nil || it.kind != kind || !fieldsEqual(it.fields, got) {
		// was an earlier-encoded block of the same sender still outstanding?
		my := 1 << 30
		if it != nil && it.kind == kind {
			my = it.blockSeq
		}
		var earlier *item
		var earlierID uint32
		w := map[string]interface{}{"stream": p.id, "received": short(got)}
		for id, ot := range s.tr[d] {
			for _, o := range ot.items {
				if (o.kind == 'H' || o.kind == 'U') && o.recvSeq == 0 && o != it && o.blockSeq < my {
					if earlier == nil || o.blockSeq < earlier.blockSeq {
						earlier, earlierID = o, id
					}
				}
			}
		}
		if derr != nil {
			w["decode_error"] = derr.Error()
		}
		if it != nil {
			w["sent"] = short(it.fields)
		}
		if earlier == nil && it != nil && it.kind == kind {
			// or was this block itself overtaken by blocks the sender encoded after it?
			for id, ot := range s.tr[d] {
				for _, o := range ot.items {
					if (o.kind == 'H' || o.kind == 'U') && o.recvSeq != 0 && o.blockSeq > my {
						earlier, earlierID = it, p.id
						w["overtaken_by_later_block_on_stream"] = id
					}
				}
			}
		}
		if earlier != nil {
			cls := "reordered-blocks"
			if e.undelivered(earlierID) > 0 || (earlier == it && t.dataSent > 0) {
				cls = "headers-behind-blocked-data"
			}
			if earlier != it {
				w["earlier_block_outstanding_on_stream"] = earlierID
			}
			s.find("hpack-order", cls, fmt.Sprintf("%s: %s block on stream %d does not decode to the sent field list under the receiver's HPACK state (err=%v); header blocks reached the receiver in a different order than the sender encoded them (stream %d's block was held back)", e.name(), what, p.id, derr, earlierID), w)
			return
		}
		cls := "unknown"
		if it != nil {
			cls = fragClass(it)
		}
		s.find("header-fields", cls, fmt.Sprintf("%s: %s block on stream %d does not decode to the sent field list (err=%v)", e.name(), what, p.id, derr), w)
		return
	}
	if p.push {
		if it.promised != p.promised {
			s.find("push-promise", "promised-id", fmt.Sprintf("%s received PUSH_PROMISE promising stream %d, sent %d", e.name(), p.promised, it.promised), nil)
			return
		}
		it.recvSeq = s.tick()
		t.cur++
		e.ppRecv[p.promised] = true
		e.known[p.promised] = true
		return
	}
	if (it.prio != nil) != p.hasPrio || (it.prio != nil && *it.prio != p.prio) {
		s.find("priority", "headers:"+fragClass(it), fmt.Sprintf("%s received HEADERS on stream %d with priority present=%v %+v, sent %v", e.name(), p.id, p.hasPrio, p.prio, it.prio), nil)
		return
	}
	it.recvSeq = s.tick()
	t.cur++
	e.hdrRecv[p.id] = true
	e.known[p.id] = true
	// other streams' headers while some stream's DATA is certainly blocked
	for sid, since := range e.blockedSince() {
		if sid != p.id && since < it.sendSeq {
			s.OtherHdrWhileBlocked = true
		}
	}
	next := t.peek()
	attached := next != nil && next.kind == 'E' && it.endWith
	if p.end != attached {
		ctx := "headers"
		if it.nCont > 0 {
			ctx = "continued-headers"
		}
		if p.end {
			s.find("end-stream", "invented-on-"+ctx, fmt.Sprintf("%s received END_STREAM on the HEADERS of stream %d; the sender's HEADERS (+%d CONTINUATION) did not carry END_STREAM", e.name(), p.id, it.nCont), map[string]interface{}{"stream": p.id, "fields": short(got)})
		} else {
			s.find("end-stream", "lost-on-"+ctx, fmt.Sprintf("%s received HEADERS on stream %d without END_STREAM; the sender's HEADERS carried it", e.name(), p.id), nil)
		}
		return
	}
	if p.end {
		next.recvSeq = s.tick()
		t.cur++
		e.endRecv[p.id] = true
	}
}

// ---------------------------------------------------------------------------
// writes

// writeWU grants credit (wmu held by the caller).
func (e *endpoint) writeWU(id uint32, inc uint32) {
	if inc == 0 {
		return
	}
	s := e.s
	s.mu.Lock()
	if s.failed {
		s.mu.Unlock()
		return
	}
	// a window must not exceed 2^31-1
	var cur int64
	if id == 0 {
		cur = e.connWin()
	} else {
		cur = e.streamWin(id)
	}
	if cur+int64(inc) > 1<<31-1 {
		if cur >= 1<<31-1 {
			s.mu.Unlock()
			return
		}
		inc = uint32(1<<31 - 1 - cur)
	}
	if id == 0 {
		e.connWU += int64(inc)
	} else {
		e.wu[id] += int64(inc)
	}
	e.grants = append(e.grants, s.tick())
	s.bump()
	s.mu.Unlock()
	e.werr(e.fr.WriteWindowUpdate(id, inc), "WINDOW_UPDATE")
}

// cutBlock splits an encoded header block into 1+nCont fragments.
func cutBlock(block []byte, nCont int, seed int64, emptyOK bool, firstMax, contMax int) [][]byte {
	if len(block) == 0 {
		return [][]byte{block}
	}
	rng := rand.New(rand.NewSource(seed))
	cuts := make([]int, 0, nCont)
	for i := 0; i < nCont; i++ {
		if emptyOK || len(block) < 2 {
			// later fragments may be empty; the first one is kept non-empty because x/net's
			// http2.Framer (which the relay reads with) rejects a HEADERS frame whose fragment is
			// empty; that case is exercised by the separate framer-limit probes
			cuts = append(cuts, 1+rng.Intn(len(block)))
		} else {
			cuts = append(cuts, 1+rng.Intn(len(block)-1))
		}
	}
	for i := 1; i < len(cuts); i++ {
		for j := i; j > 0 && cuts[j] < cuts[j-1]; j-- {
			cuts[j], cuts[j-1] = cuts[j-1], cuts[j]
		}
	}
	var frags [][]byte
	prev := 0
	for _, c := range cuts {
		frags = append(frags, block[prev:c])
		prev = c
	}
	frags = append(frags, block[prev:])
	// respect the frame size limit
	var out [][]byte
	for i, f := range frags {
		max := contMax
		if i == 0 && len(out) == 0 {
			max = firstMax
		}
		for len(f) > max {
			out = append(out, f[:max])
			f = f[max:]
			max = contMax
		}
		out = append(out, f)
	}
	return out
}

func (e *endpoint) encode(fs []Field) []byte {
	e.encMu.Lock()
	defer e.encMu.Unlock()
	e.encBuf.Reset()
	for _, f := range fs {
		e.enc.WriteField(hpackField(f))
	}
	if debugLog {
		b := e.encBuf.Bytes()
		n := len(b)
		if n > 10 {
			n = 10
		}
		fmt.Printf("DEBUG %s encode %d fields -> %d bytes, prefix %x\n", e.name(), len(fs), len(b), b[:n])
	}
	return append([]byte(nil), e.encBuf.Bytes()...)
}

var debugLog = os.Getenv("H2X_LOG") != ""

// decodeBlock decodes a header block with this endpoint's decoder. Leading
// dynamic table size updates are applied one by one first: RFC 7541 4.2 allows
// several at the start of a block, but x/net's 2019 hpack.Decoder rejects the
// second one when the table is not empty, which would be the harness's fault.
func (e *endpoint) decodeBlock(b []byte) ([]hpack.HeaderField, error) {
	for len(b) > 0 && b[0]&0xe0 == 0x20 {
		v := uint64(b[0] & 0x1f)
		n := 1
		if v == 0x1f {
			var m uint
			for {
				if n >= len(b) || m > 28 {
					return nil, fmt.Errorf("truncated dynamic table size update")
				}
				c := b[n]
				n++
				v += uint64(c&0x7f) << m
				m += 7
				if c&0x80 == 0 {
					break
				}
			}
		}
		if v > uint64(e.htsAllowed) {
			return nil, fmt.Errorf("dynamic table size update to %d exceeds the announced SETTINGS_HEADER_TABLE_SIZE %d", v, e.htsAllowed)
		}
		e.dec.SetMaxDynamicTableSize(uint32(v))
		b = b[n:]
	}
	return e.dec.DecodeFull(b)
}
