package h2x

import (
	"fmt"
	"sync"
	"sync/atomic"
	"time"

	"golang.org/x/net/http2"
	"golang.org/x/net/http2/hpack"

	"verifharness/internal/vh"
)

func hpackField(f Field) hpack.HeaderField {
	return hpack.HeaderField{Name: f.N, Value: f.V, Sensitive: f.S}
}

var preface = []byte("PRI * HTTP/2.0\r\n\r\nSM\r\n\r\n")

// HookPoint is registered with verifhook.Set by the property binaries: PRNG
// determined sleeps at the relay's reader/writer hook points.
func HookPoint(name string) {
	s, _ := hookSess.Load().(*Session)
	if s == nil || atomic.LoadInt32(&s.hookOn) == 0 {
		return
	}
	n := atomic.AddInt64(&s.hookN, 1)
	x := uint64(s.Plan.SegSeed) ^ uint64(n)*0x9e3779b97f4a7c15 ^ uint64(len(name))<<40
	x ^= x >> 31
	x *= 0xbf58476d1ce4e5b9
	x ^= x >> 29
	if name == "h2.relay.writer.beforeSend" {
		if g, _ := s.gate.Load().(chan struct{}); g != nil {
			<-g // closed by openGate
		}
	}
	if s.Plan.SlowWriter && name == "h2.relay.writer.beforeSend" {
		// a slow destination: the 15-slot output channel of the relay fills up
		time.Sleep(time.Duration(300+x>>8%1200) * time.Microsecond)
		return
	}
	if atomic.LoadInt32(&s.hookOn) == 2 {
		return // only the slow writer was requested
	}
	if x%6 == 0 {
		time.Sleep(time.Duration(x>>8%400) * time.Microsecond)
	}
}

func (s *Session) stuckMissing(what string) func(string) {
	return func(fp string) {
		clause := "missing"
		if s.Prop == "C09" && (what == "DATA" || what == "END_STREAM") {
			clause = "strand"
			what = "ample-credit"
		}
		s.find(clause, what, "the system is quiescent and "+what+" never arrived although nothing blocks it", map[string]interface{}{"pending": s.pendingSummary(), "goroutines": fp})
	}
}

// pendingSummary lists what each receiver is still missing (s.mu held).
func (s *Session) pendingSummary() []string {
	var out []string
	for d := 0; d < 2; d++ {
		x := s.ep[1-d]
		for id, t := range s.tr[d] {
			if !t.complete() {
				it := t.peek()
				out = append(out, fmt.Sprintf("%s->%s stream %d: next %v (item %d/%d, data %d/%d, stream window %d, connection window %d, full-compare=%v)",
					s.ep[d].name(), x.name(), id, it, t.cur, len(t.items), t.dataRecv, t.dataSent, x.streamWin(id), x.connWin(), x.fullCompare(id)))
			}
		}
	}
	return out
}

// barrier sends a PING and waits for its acknowledgement: everything e wrote
// before it has been processed by the relay and by the other endpoint.
func (e *endpoint) barrierRT(clause, class string) bool {
	s := e.s
	var data [8]byte
	e.wmu.Lock()
	s.mu.Lock()
	e.nBarrier++
	copy(data[:], fmt.Sprintf("B%d%06d", e.idx, e.nBarrier))
	e.connSent[cPing] = append(e.connSent[cPing], &connItem{ping: data})
	s.mu.Unlock()
	e.werr(e.fr.WritePing(false, data), "PING")
	e.wmu.Unlock()
	return s.wait(func() bool { return e.barrier[data] }, func(fp string) {
		s.find(clause, class, fmt.Sprintf("%s: a PING sent after the connection preface/SETTINGS was never answered: the relay is quiescent", e.name()), map[string]interface{}{"goroutines": fp})
	})
}

func (e *endpoint) sendSettings(st []http2.Setting) {
	s := e.s
	e.wmu.Lock()
	s.mu.Lock()
	e.connSent[cSettings] = append(e.connSent[cSettings], &connItem{settings: st})
	s.mu.Unlock()
	e.werr(e.fr.WriteSettings(st...), "SETTINGS")
	e.wmu.Unlock()
}

// applyOwn updates e's receiver ledger for a setting it announces (s.mu held).
func (e *endpoint) applyOwn(id http2.SettingID, v uint32) {
	switch id {
	case http2.SettingInitialWindowSize:
		e.iws = int64(v)
	case http2.SettingMaxFrameSize:
		e.mfs = int64(v)
	case http2.SettingHeaderTableSize:
		e.dec.SetAllowedMaxDynamicTableSize(v)
		e.htsAllowed = v
	}
}

func (s *Session) drive() {
	pl := s.Plan
	prefCls := "whole-preface"
	if pl.PrefaceCut > 0 {
		prefCls = "split-read"
	}
	if _, err := s.pipeA.Write(preface); err != nil {
		s.Inconc = append(s.Inconc, "preface write: "+err.Error())
		return
	}
	for i, e := range s.ep {
		// initial SETTINGS: nothing is in flight yet, so lower values apply at once
		s.mu.Lock()
		for _, st := range pl.Init[i].Settings {
			e.applyOwn(st.ID, st.Val)
		}
		e.replenish = pl.Init[i].Replenish
		s.mu.Unlock()
		e.sendSettings(pl.Init[i].Settings)
		if b := pl.Init[i].ConnBoost; b > 0 {
			e.wmu.Lock()
			e.writeWU(0, b)
			e.wmu.Unlock()
		}
	}
	for _, e := range s.ep {
		if !e.barrierRT("preface", prefCls) {
			return
		}
	}
	s.mu.Lock()
	s.setupDone = true
	s.mu.Unlock()
	for phi, ph := range pl.Phases {
		s.mu.Lock()
		for _, e := range s.ep {
			e.pos, e.done = 0, false
		}
		s.mu.Unlock()
		var wg sync.WaitGroup
		for i := range s.ep {
			wg.Add(2)
			go func(e *endpoint) { defer wg.Done(); e.runScript(ph.Ops[e.idx]) }(s.ep[i])
			go func(e *endpoint) { defer wg.Done(); e.runControl(ph, phi) }(s.ep[i])
		}
		wg.Wait()
		s.mu.Lock()
		f := s.failed
		s.mu.Unlock()
		if f {
			return
		}
		for _, c := range ph.After {
			if !s.applyChange(c) {
				return
			}
		}
	}
	// everything sent must have been delivered (ample credit was granted)
	for _, e := range s.ep {
		if !e.awaitDelivered() {
			return
		}
	}
	if !s.wait(func() bool {
		for _, e := range s.ep {
			for k := 0; k < 3; k++ {
				if e.connCur[k] < len(e.peer().connSent[k]) {
					return false
				}
			}
		}
		return true
	}, func(fp string) {
		kind := "?"
		for _, e := range s.ep {
			for k := 0; k < 3; k++ {
				if e.connCur[k] < len(e.peer().connSent[k]) {
					kind = [...]string{"SETTINGS", "PING", "GOAWAY"}[k]
				}
			}
		}
		s.find("missing", kind, "the system is quiescent and a "+kind+" frame was never forwarded", map[string]interface{}{"goroutines": fp})
	}) {
		return
	}
	// sender ledger: exactly the flow-controlled length of every DATA frame returns
	for _, e := range s.ep {
		if s.Prop == "C09" && !e.awaitCredit() {
			return
		}
	}
	// nothing else may follow (extra frames are flagged on receipt)
	vh.Settle(s.activity, 3, 4*time.Millisecond, 5*time.Second)
	s.mu.Lock()
	if !s.failed {
		s.Completed = true
	}
	s.mu.Unlock()
}

func (e *endpoint) awaitCredit() bool {
	s := e.s
	short := func() (uint32, int64, int64, bool) {
		if e.connRet != e.connSentL {
			return 0, e.connRet, e.connSentL, true
		}
		for id, l := range e.sentL {
			if e.ret[id] != l {
				return id, e.ret[id], l, true
			}
		}
		return 0, 0, 0, false
	}
	return s.wait(func() bool { _, _, _, bad := short(); return !bad }, func(fp string) {
		id, got, want, _ := short()
		cls := "unpadded-data"
		for sid, t := range s.tr[e.idx] {
			if t.padSent && (id == 0 || sid == id) {
				cls = "padded-data"
			}
		}
		s.find("credit-short", cls, fmt.Sprintf("%s sent DATA frames of total flow-controlled length %d on stream %d (0 = connection) but the relay returned only %d bytes of credit and is quiescent", e.name(), want, id, got),
			map[string]interface{}{"sent_flow_controlled": e.sentL, "returned": e.ret, "conn_sent": e.connSentL, "conn_returned": e.connRet})
	})
}

// deliveredToward reports whether every fully compared stream toward e is complete (s.mu held).
func (e *endpoint) deliveredToward() bool {
	for id, t := range e.s.tr[1-e.idx] {
		if e.fullCompare(id) && !t.complete() {
			return false
		}
	}
	return true
}

func (e *endpoint) awaitDelivered() bool {
	what := "a frame"
	return e.s.wait(e.deliveredToward, func(fp string) {
		for id, t := range e.s.tr[1-e.idx] {
			if e.fullCompare(id) && !t.complete() {
				if it := t.peek(); it != nil {
					what = map[byte]string{'H': "HEADERS", 'D': "DATA", 'E': "END_STREAM", 'R': "RST_STREAM", 'P': "PRIORITY", 'U': "PUSH_PROMISE"}[it.kind]
				}
			}
		}
		e.s.stuckMissing(what)(fp)
	})
}

// applyChange performs a SETTINGS change between phases.
func (s *Session) applyChange(c Change) bool {
	e := s.ep[c.E]
	if c.Lower && c.NoDrain {
		// no draining: whatever the windows hold back stays queued in the relay (WaitRecv: a
		// hand-written session waits until exactly that many payload bytes have arrived)
		if c.WaitDelivered {
			if !e.awaitDelivered() || !e.peer().barrierRT("settings", "barrier") {
				return false
			}
		}
		if c.WaitRecv > 0 && !s.wait(func() bool {
			var n int64
			for _, t := range s.tr[1-e.idx] {
				n += t.dataRecv
			}
			return n == c.WaitRecv
		}, s.stuckMissing("DATA")) {
			return false
		}
	} else if c.Lower {
		// lower only when nothing is queued or in flight toward e
		if !e.ample() || !e.awaitDelivered() {
			return false
		}
		// ... including frames of the peer that are only compared as a prefix (streams e has reset): a
		// PING round trip started by the peer proves that the relay has read and decoded everything the
		// peer sent (a header block still in flight would meet an already shrunk HPACK table)
		if !e.peer().barrierRT("settings", "barrier") {
			return false
		}
	} else {
		s.mu.Lock()
		e.applyOwn(c.ID, c.Val)
		if c.ID == http2.SettingInitialWindowSize {
			e.grants = append(e.grants, s.tick())
		}
		s.mu.Unlock()
	}
	if c.Dup != nil && c.Lower && !c.NoDrain {
		e.sendSettings([]http2.Setting{{ID: c.ID, Val: *c.Dup}, {ID: c.ID, Val: c.Val}})
	} else {
		e.sendSettings([]http2.Setting{{ID: c.ID, Val: c.Val}})
	}
	if !e.barrierRT("settings", "barrier") {
		return false
	}
	if c.Lower {
		s.mu.Lock()
		e.applyOwn(c.ID, c.Val)
		s.mu.Unlock()
	}
	// a SETTINGS change may have opened windows: whatever the credit now covers must arrive
	if s.Prop == "C09" && !e.awaitNoStrand("settings-change") {
		return false
	}
	return true
}

// opened reports whether e has sent (logged) the frame that opens / announces
// stream id: its HEADERS, or a PUSH_PROMISE promising it (s.mu held).
func (e *endpoint) opened(id uint32) bool {
	if t := e.s.tr[e.idx][id]; t != nil {
		for _, it := range t.items {
			if it.kind == 'H' {
				return true
			}
		}
	}
	for _, t := range e.s.tr[e.idx] {
		for _, it := range t.items {
			if it.kind == 'U' && it.promised == id {
				return true
			}
		}
	}
	return false
}

// ---------------------------------------------------------------------------
// receiver controller

// knownAll waits until every stream with pending traffic toward e may receive WINDOW_UPDATEs.
func (e *endpoint) awaitKnown() bool {
	s := e.s
	if !s.waitDep(func() bool {
		for id, t := range s.tr[1-e.idx] {
			if e.fullCompare(id) && !t.complete() && !e.known[id] && !e.peer().opened(id) {
				return false
			}
		}
		return true
	}) {
		return false
	}
	return s.wait(func() bool {
		for id, t := range s.tr[1-e.idx] {
			if e.fullCompare(id) && !t.complete() && !e.known[id] {
				return false
			}
		}
		return true
	}, s.stuckMissing("HEADERS"))
}

func (e *endpoint) ample() bool {
	if !e.awaitKnown() {
		return false
	}
	s := e.s
	e.wmu.Lock()
	defer e.wmu.Unlock()
	s.mu.Lock()
	var ids []uint32
	for id, t := range s.tr[1-e.idx] {
		if e.fullCompare(id) && !t.complete() && e.known[id] && !e.closedFor(id) && e.streamWin(id) < 1<<29 {
			ids = append(ids, id)
		}
	}
	conn := e.connWin() < 1<<29
	s.mu.Unlock()
	if conn {
		e.writeWU(0, 1<<30)
	}
	for _, id := range ids {
		e.writeWU(id, 1<<30)
	}
	return true
}

// exact grants precisely the credit that is missing for the undelivered data.
func (e *endpoint) exact(streamsFirst bool) bool {
	if !e.awaitKnown() {
		return false
	}
	s := e.s
	e.wmu.Lock()
	s.mu.Lock()
	type g struct {
		id  uint32
		inc int64
	}
	var gs []g
	if d := e.totalUndelivered() - e.connWin(); d > 0 {
		gs = append(gs, g{0, d})
	}
	for id := range s.tr[1-e.idx] {
		if !e.fullCompare(id) || !e.known[id] || e.closedFor(id) {
			continue
		}
		if d := e.undelivered(id) - e.streamWin(id); d > 0 {
			gs = append(gs, g{id, d})
		}
	}
	s.mu.Unlock()
	if streamsFirst && len(gs) > 1 && gs[0].id == 0 {
		gs = append(gs[1:], gs[0])
	}
	for _, x := range gs {
		e.writeWU(x.id, uint32(x.inc))
	}
	e.wmu.Unlock()
	return e.awaitNoStrand("exact-credit")
}

// awaitNoStrand: for every stream, if the stream credit covers its undelivered
// bytes and the connection credit covers all undelivered bytes, the stream's
// undelivered bytes must reach zero without further input.
func (e *endpoint) awaitNoStrand(cls string) bool {
	s := e.s
	bad := func() (uint32, bool) {
		tot := e.totalUndelivered()
		for id := range s.tr[1-e.idx] {
			if !e.fullCompare(id) {
				continue
			}
			if u := e.undelivered(id); u > 0 && e.streamWin(id) >= u && e.connWin() >= tot {
				return id, true
			}
		}
		return 0, false
	}
	return s.wait(func() bool { _, b := bad(); return !b }, func(fp string) {
		id, _ := bad()
		s.find("strand", cls, fmt.Sprintf("%s granted enough credit (stream %d window %d, connection window %d) for the %d bytes the relay holds for stream %d (%d in total), the relay is quiescent and the data was not delivered",
			e.name(), id, e.streamWin(id), e.connWin(), e.undelivered(id), id, e.totalUndelivered()), map[string]interface{}{"pending": s.pendingSummary(), "goroutines": fp})
	})
}

func (e *endpoint) runControl(ph *Phase, phi int) {
	s := e.s
	p := e.peer()
	for _, st := range ph.Ctl[e.idx] {
		st := st
		if !s.waitDep(func() bool { return p.pos >= st.After || p.done }) {
			return
		}
		if st.S != 0 {
			if !s.waitDep(func() bool { return e.known[st.S] || p.done }) {
				return
			}
		}
		if st.Act == "deficit" {
			e.wmu.Lock()
			s.mu.Lock()
			var sid uint32
			var worst int64
			for id := range s.tr[1-e.idx] {
				if e.known[id] && !e.closedFor(id) && e.fullCompare(id) {
					if w := e.streamWin(id); w < worst {
						sid, worst = id, w
					}
				}
			}
			s.mu.Unlock()
			if sid != 0 {
				inc := 1 + (-worst-1)*int64(st.Inc)/1000
				e.writeWU(sid, uint32(inc))
				s.mu.Lock()
				if uint32(inc) > e.maxIncSent {
					e.maxIncSent = uint32(inc)
				}
				s.NegWindowGrants++
				s.mu.Unlock()
			}
			e.wmu.Unlock()
			if s.Prop == "C09" && !e.awaitNoStrand("partial-credit") {
				return
			}
			continue
		}
		if st.Act == "gated" {
			e.gatedGrant(ph.Ops[1-e.idx])
			continue
		}
		if st.Act == "exact" {
			if !e.exact(st.SF) {
				return
			}
			continue
		}
		if st.Act == "connfit" {
			e.wmu.Lock()
			s.mu.Lock()
			need := e.totalUndelivered() - e.connWin()
			s.mu.Unlock()
			if need > 1 {
				e.writeWU(0, uint32(need-1))
			}
			if need > 0 {
				e.writeWU(0, 1)
			}
			e.wmu.Unlock()
			s.mu.Lock()
			if need > 0 && e.maxIncSent == 0 {
				e.maxIncSent = 1
			}
			s.mu.Unlock()
			continue
		}
		for r := 0; r < st.Rep; r++ {
			e.wmu.Lock()
			s.mu.Lock()
			ok := st.S == 0 || (e.known[st.S] && !e.closedFor(st.S))
			s.mu.Unlock()
			if ok {
				e.writeWU(st.S, st.Inc)
				s.mu.Lock()
				if st.Inc > e.maxIncSent {
					e.maxIncSent = st.Inc // scheduled grants only (not the final exact/ample ones)
				}
				s.mu.Unlock()
			}
			e.wmu.Unlock()
		}
		// intermediate quiescent point: no-strand must hold whenever the premise does
		if s.Prop == "C09" && !e.awaitNoStrand("partial-credit") {
			return
		}
	}
	if !s.waitDep(func() bool { return p.done }) {
		return
	}
	if ph.EndExact[e.idx] && !e.exact(ph.ExactSF[e.idx]) {
		return
	}
	if ph.EndAmple[e.idx] {
		if !e.ample() || !e.awaitDelivered() {
			return
		}
	}
}

// ---------------------------------------------------------------------------
// script sender

func (e *endpoint) runScript(ops []*Op) {
	s := e.s
	defer func() {
		s.mu.Lock()
		e.done = true
		s.bump()
		s.mu.Unlock()
	}()
	for _, o := range ops {
		if !s.waitDep(func() bool { return !e.hold }) { // a gated grant of the peer's controller is in progress
			return
		}
		if !e.sendOp(o) {
			return
		}
		s.mu.Lock()
		e.pos++
		s.bump()
		s.mu.Unlock()
	}
}

// sendOp writes one scripted frame; false aborts the script.
func (e *endpoint) sendOp(o *Op) bool {
	s := e.s
	id := o.S
	if o.K < OpSettings {
		if o.WaitHdr {
			// first until the client has sent them (its own waits decide if it cannot), then until they arrive
			if !s.waitDep(func() bool { return e.hdrRecv[id] || e.peer().opened(id) }) {
				return false
			}
			if !s.wait(func() bool { return e.hdrRecv[id] }, s.stuckMissing("HEADERS")) {
				return false
			}
		}
		if o.WaitPP {
			if !s.waitDep(func() bool { return e.ppRecv[id] || e.peer().opened(id) }) {
				return false
			}
			if !s.wait(func() bool { return e.ppRecv[id] }, s.stuckMissing("PUSH_PROMISE")) {
				return false
			}
		}
		s.mu.Lock()
		skip := false
		if o.K != OpPriority && (e.rstRecv[id] || e.rstSent[id]) {
			skip = true // the stream is closed for us: RFC 7540 5.1
		}
		s.mu.Unlock()
		if skip {
			return true
		}
	}
	switch o.K {
	case OpHeaders, OpPush:
		block := e.encode(o.Fields)
		firstMax := 16384
		if o.Pad > 0 {
			firstMax -= 1 + o.Pad
		}
		if o.Prio != nil {
			firstMax -= 5
		}
		if o.K == OpPush {
			firstMax -= 4
		}
		frags := cutBlock(block, o.NCont, o.CutSeed, o.EmptyOK, firstMax, 16384)
		if o.EmptyFirst {
			frags = [][]byte{{}, block}
		}
		it := &item{kind: 'H', fields: o.Fields, prio: o.Prio, nCont: len(frags) - 1, padded: o.Pad > 0, endWith: o.End}
		if o.K == OpPush {
			it.kind, it.promised = 'U', o.Promised
		}
		e.wmu.Lock()
		defer e.wmu.Unlock()
		s.mu.Lock()
		if s.failed {
			s.mu.Unlock()
			return false
		}
		e.blockSeq++
		it.blockSeq = e.blockSeq
		if o.K == OpHeaders {
			// trailers sent while this stream's DATA is certainly blocked at the relay
			if _, b := e.peer().blockedSince()[id]; b && e.track(id).dataSent > 0 {
				s.TrailersBehind = true
			}
		}
		e.logItem(id, it)
		if o.End {
			e.logItem(id, &item{kind: 'E'})
			e.endSent[id] = true
		}
		if o.K == OpHeaders && e.idx == 0 {
			e.known[id] = true
		}
		if len(frags) > 1 {
			e.obsCont = true
		}
		for _, f := range frags {
			if len(f) == 0 {
				e.obsEmptyFrag = true
			}
		}
		if o.Pad > 0 {
			e.obsHdrPad = true
		}
		if o.Prio != nil {
			e.obsPrio = true
		}
		s.mu.Unlock()
		var pad uint8
		if o.Pad > 0 {
			pad = uint8(o.Pad)
		}
		var err error
		if o.K == OpHeaders {
			hp := http2.HeadersFrameParam{StreamID: id, BlockFragment: frags[0], EndStream: o.End, EndHeaders: len(frags) == 1, PadLength: pad}
			if o.Prio != nil {
				hp.Priority = *o.Prio
			}
			err = e.fr.WriteHeaders(hp)
		} else {
			err = e.fr.WritePushPromise(http2.PushPromiseParam{StreamID: id, PromiseID: o.Promised, BlockFragment: frags[0], EndHeaders: len(frags) == 1, PadLength: pad})
		}
		for i := 1; i < len(frags) && err == nil; i++ {
			err = e.fr.WriteContinuation(id, i == len(frags)-1, frags[i])
		}
		e.werr(err, opNames[o.K])
	case OpData:
		L := int64(o.N)
		if o.Pad >= 0 {
			L += 1 + int64(o.Pad)
		}
		if !s.wait(func() bool { return e.canSend(id, L) }, func(fp string) {
			cls := "unpadded-data"
			for _, t := range s.tr[e.idx] {
				if t.padSent {
					cls = "padded-data"
				}
			}
			if s.Prop == "C09" {
				s.find("credit-short", cls, fmt.Sprintf("%s cannot send the next DATA frame (flow-controlled length %d, stream %d): the relay returned %d of %d bytes on the stream and %d of %d on the connection and is quiescent", e.name(), L, id, e.ret[id], e.sentL[id], e.connRet, e.connSentL),
					map[string]interface{}{"sent_flow_controlled": e.sentL, "returned": e.ret, "conn_sent": e.connSentL, "conn_returned": e.connRet})
			} else {
				s.Inconc = append(s.Inconc, "sender starved of relay credit (C09's clause); script cannot be delivered")
			}
		}) {
			return false
		}
		e.wmu.Lock()
		defer e.wmu.Unlock()
		s.mu.Lock()
		if s.failed {
			s.mu.Unlock()
			return false
		}
		t := e.track(id)
		off := t.dataSent
		e.sentL[id] += L
		e.connSentL += L
		if o.Pad >= 0 {
			t.padSent = true
			e.obsDataPad = true
		}
		e.logData(id, int64(o.N))
		if o.End {
			e.logItem(id, &item{kind: 'E'})
			e.endSent[id] = true
		}
		s.mu.Unlock()
		buf := make([]byte, o.N)
		vh.StampInto(buf, stampID(e.idx, id), off)
		if o.Pad >= 0 {
			e.werr(e.fr.WriteDataPadded(id, o.End, buf, make([]byte, o.Pad)), "DATA")
		} else {
			e.werr(e.fr.WriteData(id, o.End, buf), "DATA")
		}
	case OpWU:
		e.wmu.Lock()
		s.mu.Lock()
		ok := e.known[id] && !e.closedFor(id)
		s.mu.Unlock()
		if ok {
			e.writeWU(id, o.Inc)
		}
		e.wmu.Unlock()
	case OpRst:
		e.wmu.Lock()
		defer e.wmu.Unlock()
		s.mu.Lock()
		e.logItem(id, &item{kind: 'R', code: o.Code})
		e.rstSent[id] = true
		s.mu.Unlock()
		e.werr(e.fr.WriteRSTStream(id, http2.ErrCode(o.Code)), "RST_STREAM")
	case OpPriority:
		e.wmu.Lock()
		defer e.wmu.Unlock()
		s.mu.Lock()
		e.logItem(id, &item{kind: 'P', prio: o.Prio})
		s.mu.Unlock()
		e.werr(e.fr.WritePriority(id, *o.Prio), "PRIORITY")
	case OpSettings:
		e.sendSettings(o.Settings)
	case OpPing:
		e.wmu.Lock()
		defer e.wmu.Unlock()
		s.mu.Lock()
		e.connSent[cPing] = append(e.connSent[cPing], &connItem{ping: o.Ping})
		s.mu.Unlock()
		e.werr(e.fr.WritePing(false, o.Ping), "PING")
	case OpGoAway:
		if !s.waitDep(func() bool {
			for _, id := range o.WaitOpen {
				if !e.hdrRecv[id] && !e.peer().opened(id) {
					return false
				}
			}
			return true
		}) {
			return false
		}
		e.wmu.Lock()
		defer e.wmu.Unlock()
		s.mu.Lock()
		e.connSent[cGoAway] = append(e.connSent[cGoAway], &connItem{last: o.Last, code: o.Code, debug: o.Debug})
		s.mu.Unlock()
		e.werr(e.fr.WriteGoAway(o.Last, http2.ErrCode(o.Code), o.Debug), "GOAWAY")
	}
	return true
}

// closeGate makes the relay's writer goroutines block at their beforeSend hook
// point (a destination that has stopped reading); openGate releases them.
func (s *Session) closeGate() {
	s.gateMu.Lock()
	if s.gateCh == nil && !s.gateDead {
		s.gateCh = make(chan struct{})
		s.gate.Store(s.gateCh)
	}
	s.gateMu.Unlock()
}

func (s *Session) openGate(forever bool) {
	s.gateMu.Lock()
	if s.gateCh != nil {
		close(s.gateCh)
		s.gateCh = nil
		s.gate.Store((chan struct{})(nil))
	}
	if forever {
		s.gateDead = true
	}
	s.gateMu.Unlock()
}

// gatedGrant: with the relay's writers held, grant one large stream-level
// window to the stream with the most DATA held back (so that a batch of frames
// is released at once), let the sender's following frames reach the relay, then
// let the writers go. No verdict is taken here; it only shapes the schedule.
func (e *endpoint) gatedGrant(ops []*Op) {
	s := e.s
	p := e.peer()
	s.closeGate()
	defer s.openGate(false)
	// hold the peer's script so that its next frame on the chosen stream comes after the grant
	s.mu.Lock()
	p.hold = true
	s.mu.Unlock()
	release := func() {
		s.mu.Lock()
		if p.hold {
			p.hold = false
			s.bump()
		}
		s.mu.Unlock()
	}
	defer release()
	vh.Settle(s.activity, 3, 2*time.Millisecond, time.Second)
	s.mu.Lock()
	// the stream with the most DATA held back on which the peer still has something to send
	remaining := map[uint32]int{}
	for i := p.pos; i < len(ops); i++ {
		if ops[i].K < OpSettings {
			remaining[ops[i].S]++
		}
	}
	var best uint32
	var bestU int64
	for id := range s.tr[1-e.idx] {
		if !e.fullCompare(id) || !e.known[id] || e.closedFor(id) || remaining[id] == 0 {
			continue
		}
		if u := e.undelivered(id); u > e.streamWin(id) && u > bestU {
			best, bestU = id, u
		}
	}
	needConn := e.totalUndelivered() - e.connWin()
	pos0 := p.pos
	f := s.failed
	s.mu.Unlock()
	if best == 0 || f {
		return
	}
	// our own script sender may sit in a Write (holding wmu) that cannot finish while the gate is
	// closed: never wait for it here
	locked := false
	for i := 0; i < 100 && !locked; i++ {
		if locked = e.wmu.TryLock(); !locked {
			time.Sleep(time.Millisecond)
		}
	}
	if !locked {
		return
	}
	if needConn > 0 {
		e.writeWU(0, uint32(needConn))
	}
	e.writeWU(best, 1<<24)
	e.wmu.Unlock()
	s.mu.Lock()
	if e.maxIncSent < 1<<24 {
		e.maxIncSent = 1 << 24
	}
	s.GatedGrants++
	if debugLog {
		fmt.Printf("DEBUG gated grant by %s: stream %d undelivered %d streamWin %d remaining %d pos %d/%d class %s\n", e.name(), best, bestU, e.streamWin(best), remaining[best], pos0, len(ops), s.Plan.WinClass[e.idx])
	}
	s.mu.Unlock()
	// the relay takes the released batch (its writers are held) ...
	vh.Settle(s.activity, 3, 2*time.Millisecond, time.Second)
	// ... then the peer's next frames on that stream arrive (bounded wait; shapes the schedule only)
	want := len(ops)
	for i := pos0; i < len(ops); i++ {
		if ops[i].K < OpSettings && ops[i].S == best {
			want = i + 1
			break
		}
	}
	release()
	deadline := time.Now().Add(300 * time.Millisecond)
	for time.Now().Before(deadline) {
		s.mu.Lock()
		stop := p.pos >= want || p.done || s.failed
		s.mu.Unlock()
		if stop {
			break
		}
		time.Sleep(500 * time.Microsecond)
	}
	vh.Settle(s.activity, 3, 2*time.Millisecond, time.Second)
}
