package h2x

import (
	"bytes"
	"crypto/tls"
	"fmt"
	"math/rand"
	"net/url"
	"sync"
	"sync/atomic"
	"time"

	"github.com/google/martian/v3/h2"
	"golang.org/x/net/http2"
	"golang.org/x/net/http2/hpack"

	"verifharness/internal/vh"
)

// Finding is a violated clause observed by the monitor.
type Finding struct {
	Clause  string      `json:"clause"`
	Class   string      `json:"class"`
	What    string      `json:"what"`
	Witness interface{} `json:"witness,omitempty"`
}

// item is one element of a stream's normalised event sequence as sent.
type item struct {
	kind     byte // 'H' headers, 'D' data run, 'E' end of stream, 'R' reset, 'P' priority, 'U' push promise
	fields   []Field
	prio     *http2.PriorityParam
	n        int64
	code     uint32
	promised uint32
	nCont    int
	padded   bool
	endWith  bool  // END_STREAM carried by this HEADERS frame
	blockSeq int   // order in which the sender encoded header blocks
	sendSeq  int64 // global event clock when logged (before the write)
	recvSeq  int64
}

func (it *item) String() string {
	switch it.kind {
	case 'H':
		return fmt.Sprintf("HEADERS{%d fields, prio=%v, cont=%d}", len(it.fields), it.prio != nil, it.nCont)
	case 'D':
		return fmt.Sprintf("DATA{%d bytes}", it.n)
	case 'E':
		return "END_STREAM"
	case 'R':
		return fmt.Sprintf("RST_STREAM{%d}", it.code)
	case 'P':
		return fmt.Sprintf("PRIORITY{%+v}", *it.prio)
	case 'U':
		return fmt.Sprintf("PUSH_PROMISE{promised=%d, %d fields}", it.promised, len(it.fields))
	}
	return "?"
}

// strack is the sent log of one (direction, stream) plus the receiver's cursor.
type strack struct {
	items    []*item
	cur      int
	curOff   int64
	dataSent int64 // payload bytes logged by the sender
	dataRecv int64 // payload bytes accepted by the receiver's comparison
	padSent  bool
}

func (t *strack) complete() bool {
	i := t.cur
	if i < len(t.items) && t.items[i].kind == 'D' && t.curOff == t.items[i].n {
		i++
	}
	return i == len(t.items)
}

// nextNonData moves past a fully consumed data run and returns the next item.
func (t *strack) peek() *item {
	if t.cur < len(t.items) && t.items[t.cur].kind == 'D' && t.curOff == t.items[t.cur].n {
		t.cur++
		t.curOff = 0
	}
	if t.cur < len(t.items) {
		return t.items[t.cur]
	}
	return nil
}

type connItem struct {
	ack      bool
	settings []http2.Setting
	ping     [8]byte
	last     uint32
	code     uint32
	debug    []byte
}

const (
	cSettings = iota
	cPing
	cGoAway
)

// endpoint is one raw http2.Framer peer of the relay (0 = client, 1 = server).
type endpoint struct {
	s   *Session
	idx int
	fr  *http2.Framer
	wmu sync.Mutex // serialises writes to fr (held across a whole header block)

	encMu      sync.Mutex
	enc        *hpack.Encoder
	encBuf     bytes.Buffer
	dec        *hpack.Decoder
	htsAllowed uint32 // largest table size the peer's encoder may use (what we announced)

	ctlMu   sync.Mutex
	ctlQ    []func()
	ctlWake chan struct{}

	// all fields below are guarded by Session.mu
	connSent [3][]*connItem // what this endpoint sent
	connCur  [3]int         // what this endpoint has consumed of the peer's connSent
	blockSeq int

	// receiver ledger (what this endpoint granted / received)
	iws       int64
	mfs       int64
	connWU    int64
	connRecvL int64
	wu        map[uint32]int64
	recvL     map[uint32]int64
	replenish bool
	known     map[uint32]bool // streams this endpoint may send WINDOW_UPDATE on
	// sender ledger (credit toward the relay)
	peerIWS   int64
	peerMFS   int64
	sentL     map[uint32]int64
	ret       map[uint32]int64
	connSentL int64
	connRet   int64
	// stream state
	hdrRecv  map[uint32]bool
	ppRecv   map[uint32]bool
	rstSent  map[uint32]bool
	rstRecv  map[uint32]bool
	endSent  map[uint32]bool
	endRecv  map[uint32]bool
	pos      int  // ops of the current phase completed by the script sender
	done     bool // script sender finished the current phase
	hold     bool // script sender paused by the peer's controller (gated grant)
	barrier  map[[8]byte]bool
	nBarrier int
	frames   int64
	blocked  map[uint32]int64 // streams whose DATA is certainly held back by our windows -> clock
	grants   []int64          // event clock of every WINDOW_UPDATE / window-raising SETTINGS written
	readErr  error
	// observations for coverage classes
	obsCont, obsEmptyFrag, obsHdrPad, obsDataPad, obsPrio bool
	maxIncSent                                            uint32
}

// Session runs one generated plan through h2.Config.Proxy and checks it.
type Session struct {
	Plan *Plan
	Case Case
	Prop string

	mu       sync.Mutex
	changed  chan struct{}
	progress int64
	clock    int64
	ep       [2]*endpoint
	tr       [2]map[uint32]*strack // by sender
	failed   bool
	tearing  bool
	Findings []Finding
	Inconc   []string

	pipeA     *vh.PipeConn // harness side
	pipeR     *vh.PipeConn // relay side
	srv       *countConn
	proxyDone chan error
	closing   chan bool

	// observations
	Blocked, TrailersBehind, OtherHdrWhileBlocked bool
	ConnBound                                     bool
	Completed                                     bool
	Events                                        int64
	BytesCompared                                 int64
	ProxyLeaked                                   bool
	hookOn                                        int32
	gate                                          atomic.Value // chan struct{}: non-nil while the writer gate is closed
	gateMu                                        sync.Mutex
	gateCh                                        chan struct{}
	gateDead                                      bool
	GatedGrants                                   int
	NegWindowGrants                               int
	hookN                                         int64
	setupDone                                     bool
	Foreign                                       []Finding
}

func (s *Session) bump() {
	atomic.AddInt64(&s.progress, 1)
	close(s.changed)
	s.changed = make(chan struct{})
}

func (s *Session) tick() int64 { s.clock++; return s.clock }

var ownClauses = map[string]map[string]bool{
	"C08": {"preface": true, "connection": true, "order": true, "data": true, "end-stream": true, "rst-code": true, "priority": true,
		"push-promise": true, "hpack-order": true, "header-fields": true, "settings": true, "ping": true, "goaway": true, "missing": true},
	"C09": {"overrun-stream": true, "overrun-conn": true, "frame-size": true, "credit-excess": true, "credit-short": true, "strand": true},
}

// find records a violated clause (s.mu held). Clauses of the session's own
// property abort the session and are reported; clauses of the sibling property
// are only remembered (and abort the session when they desynchronise it).
func (s *Session) find(clause, class, what string, witness interface{}) {
	if s.tearing || len(s.Findings) > 0 {
		return // only the first violated clause of a session is reported; later ones are consequences
	}
	f := Finding{Clause: clause, Class: class, What: what, Witness: witness}
	if ownClauses[s.Prop][clause] {
		s.Findings = append(s.Findings, f)
		s.failed = true
	} else {
		s.Foreign = append(s.Foreign, f)
		if ownClauses["C08"][clause] {
			s.failed = true // event comparison lost: the C09 session cannot continue
		}
	}
	s.bump()
}

// connFail records a failure of the relayed connection (s.mu held): before the
// first PING round trip it is attributed to the connection preface clause.
func (s *Session) connFail(class, what string) {
	if !s.setupDone {
		cls := "whole-preface"
		if s.Plan.PrefaceCut > 0 {
			cls = "split-read"
		}
		s.find("preface", cls, "before the first PING round trip: "+what, nil)
		return
	}
	s.find("connection", class, what, nil)
}

func (s *Session) activity() string {
	p := atomic.LoadInt64(&s.progress) // racy read is fine for a fingerprint
	var srd, swr int64
	if s.srv != nil {
		srd, swr = atomic.LoadInt64(&s.srv.rd), atomic.LoadInt64(&s.srv.wr)
	}
	return fmt.Sprintf("p=%d a=%d/%d s=%d/%d unread=%d/%d", p, s.pipeA.Sent(), s.pipeA.Received(), srd, swr, s.pipeA.Unread(), s.pipeR.Unread())
}

// wait blocks until cond (evaluated under mu) holds. It returns false if the
// session was aborted or if the system went quiescent with cond still false;
// in the latter case stuck is called under mu with the goroutine fingerprint.
// The decision "never" is taken by vh.Await (quiescence), not by a timer.
func (s *Session) wait(cond func() bool, stuck func(fp string)) bool {
	start := time.Now()
	for {
		s.mu.Lock()
		if s.failed {
			s.mu.Unlock()
			return false
		}
		if cond() {
			s.mu.Unlock()
			return true
		}
		ch := s.changed
		s.mu.Unlock()
		if time.Since(start) > 4*time.Second {
			break
		}
		select {
		case <-ch:
		case <-time.After(500 * time.Millisecond):
		}
	}
	out, fp := vh.Await(func() bool {
		s.mu.Lock()
		defer s.mu.Unlock()
		return s.failed || cond()
	}, vh.AwaitOpts{Grace: 2 * time.Second, Activity: s.activity, Watchdog: 60 * time.Second})
	s.mu.Lock()
	defer s.mu.Unlock()
	if s.failed {
		return false
	}
	if cond() {
		return true
	}
	switch out {
	case vh.Stuck:
		stuck(fp)
	default:
		s.Inconc = append(s.Inconc, "watchdog while waiting (system still active)")
	}
	s.failed = true
	s.bump()
	return false
}

// waitDep waits for a condition that only depends on another harness
// goroutine's progress (which has its own deciding wait). It never declares a
// violation; a very long watchdog makes the session inconclusive.
func (s *Session) waitDep(cond func() bool) bool {
	start := time.Now()
	for {
		s.mu.Lock()
		if s.failed {
			s.mu.Unlock()
			return false
		}
		if cond() {
			s.mu.Unlock()
			return true
		}
		ch := s.changed
		if time.Since(start) > 150*time.Second {
			s.Inconc = append(s.Inconc, "watchdog in a dependent wait")
			s.failed = true
			s.bump()
			s.mu.Unlock()
			return false
		}
		s.mu.Unlock()
		select {
		case <-ch:
		case <-time.After(time.Second):
		}
	}
}

func newEndpoint(s *Session, idx int) *endpoint {
	e := &endpoint{s: s, idx: idx, ctlWake: make(chan struct{}, 1),
		iws: 65535, mfs: 16384, peerIWS: 65535, peerMFS: 16384,
		wu: map[uint32]int64{}, recvL: map[uint32]int64{}, known: map[uint32]bool{},
		sentL: map[uint32]int64{}, ret: map[uint32]int64{},
		hdrRecv: map[uint32]bool{}, ppRecv: map[uint32]bool{}, rstSent: map[uint32]bool{}, rstRecv: map[uint32]bool{},
		endSent: map[uint32]bool{}, endRecv: map[uint32]bool{}, barrier: map[[8]byte]bool{}}
	e.enc = hpack.NewEncoder(&e.encBuf)
	e.dec = hpack.NewDecoder(4096, nil)
	e.htsAllowed = 4096
	return e
}

func (e *endpoint) peer() *endpoint { return e.s.ep[1-e.idx] }

func (e *endpoint) name() string { return [...]string{"client", "server"}[e.idx] }

// ---------------------------------------------------------------------------
// receiver-side windows (guarded by s.mu)

func (e *endpoint) streamWin(id uint32) int64 { return e.iws + e.wu[id] - e.recvL[id] }
func (e *endpoint) connWin() int64            { return 65535 + e.connWU - e.connRecvL }

// sender-side credit toward the relay: the stream window is the smaller of
// "65 535 + what the relay returned" and "the INITIAL_WINDOW_SIZE seen in the
// SETTINGS frames the relay forwarded + what it returned", so the script is
// flow-control-correct under either reading of what the relay granted.
func (e *endpoint) canSend(id uint32, L int64) bool {
	if L == 0 {
		return true
	}
	base := int64(65535)
	if e.peerIWS < base {
		base = e.peerIWS
	}
	return base+e.ret[id]-e.sentL[id] >= L && 65535+e.connRet-e.connSentL >= L
}

// undelivered payload bytes toward receiver e on stream id / in total.
func (e *endpoint) undelivered(id uint32) int64 {
	t := e.s.tr[1-e.idx][id]
	if t == nil {
		return 0
	}
	return t.dataSent - t.dataRecv
}

func (e *endpoint) totalUndelivered() int64 {
	var n int64
	for _, t := range e.s.tr[1-e.idx] {
		n += t.dataSent - t.dataRecv
	}
	return n
}

// fullCompare reports whether the direction toward receiver e on stream id is
// compared completely (false once the receiver has reset the stream: it may no
// longer grant credit, so only a prefix can be demanded).
func (e *endpoint) fullCompare(id uint32) bool { return !e.rstSent[id] }

// closedFor reports whether e must no longer send WINDOW_UPDATE on id.
func (e *endpoint) closedFor(id uint32) bool {
	return e.rstSent[id] || e.rstRecv[id] || (e.endSent[id] && e.endRecv[id])
}

// ---------------------------------------------------------------------------
// session setup / teardown

type segState struct {
	rng       *rand.Rand
	class     string
	first     int // preface cut: size of the very first read (0 = none)
	preface   bool
	delivered int
}

func (g *segState) next(avail int) int {
	n := g.pick(avail)
	if n > avail || n < 1 {
		n = avail
	}
	g.delivered += n
	return n
}

func (g *segState) pick(avail int) int {
	if g.preface && g.delivered < 24 {
		// the 24-byte connection preface: whole unless the plan cuts it
		if g.first > 0 && g.delivered == 0 {
			return g.first
		}
		if g.first == 0 {
			return avail
		}
	}
	switch g.class {
	case "byte":
		return 1
	case "small":
		return 1 + g.rng.Intn(16)
	case "mixed":
		switch g.rng.Intn(4) {
		case 0:
			return 1
		case 1:
			return 1 + g.rng.Intn(9)
		case 2:
			return 1 + g.rng.Intn(avail)
		}
	}
	return avail
}

var hookSess atomic.Value // *Session

// Run executes the session. Findings/Inconc/observations are left in s.
func (s *Session) Run() {
	u, err := GetUpstream()
	if err != nil {
		s.Inconc = append(s.Inconc, "upstream listener: "+err.Error())
		return
	}
	s.changed = make(chan struct{})
	s.tr = [2]map[uint32]*strack{{}, {}}
	pcap := 1 << 20
	if s.Plan.PipeCap > 0 {
		pcap = s.Plan.PipeCap
	}
	s.pipeA, s.pipeR = vh.Pipe(pcap, "10.9.8.7:40000", "10.1.1.1:443")
	cg := &segState{rng: rand.New(rand.NewSource(s.Plan.SegSeed)), class: s.Plan.SegC, first: s.Plan.PrefaceCut, preface: true}
	s.pipeR.Seg = cg.next
	s.ep[0], s.ep[1] = newEndpoint(s, 0), newEndpoint(s, 1)
	s.closing = make(chan bool)
	s.proxyDone = make(chan error, 1)
	cfg := &h2.Config{RootCAs: u.Pool, EnableDebugLogs: s.Case.Debug}
	go func() {
		s.proxyDone <- cfg.Proxy(s.closing, s.pipeR, &url.URL{Scheme: "https", Host: u.Addr})
	}()
	type acc struct {
		c   *tls.Conn
		err error
	}
	ach := make(chan acc, 1)
	go func() {
		c, err := u.Accept()
		ach <- acc{c, err}
	}()
	var tc *tls.Conn
	select {
	case a := <-ach:
		if a.err != nil {
			s.Inconc = append(s.Inconc, "accept: "+a.err.Error())
			s.teardown(nil)
			return
		}
		tc = a.c
	case <-time.After(60 * time.Second):
		s.Inconc = append(s.Inconc, "relay never dialled the upstream")
		s.teardown(nil)
		return
	}
	sg := &segState{rng: rand.New(rand.NewSource(s.Plan.SegSeed + 1)), class: s.Plan.SegS}
	s.srv = &countConn{c: tc, seg: sg.next}
	s.ep[0].fr = http2.NewFramer(s.pipeA, s.pipeA)
	s.ep[1].fr = http2.NewFramer(s.srv, s.srv)
	if s.Case.Hook {
		atomic.StoreInt32(&s.hookOn, 1)
	} else if s.Plan.SlowWriter {
		atomic.StoreInt32(&s.hookOn, 2)
	}
	hookSess.Store(s)

	var wg sync.WaitGroup
	for _, e := range s.ep {
		wg.Add(2)
		go func(e *endpoint) { defer wg.Done(); e.readLoop() }(e)
		go func(e *endpoint) { defer wg.Done(); e.ctlLoop() }(e)
	}
	go func() {
		// the relay must not return while the session is running
		err := <-s.proxyDone
		s.mu.Lock()
		if !s.tearing {
			s.connFail("proxy-returned", fmt.Sprintf("Config.Proxy returned during the session (err=%v)", err))
		}
		s.mu.Unlock()
		s.proxyDone <- err
	}()

	s.drive()
	s.teardown(tc)
	wg.Wait()
}

func (s *Session) teardown(tc *tls.Conn) {
	s.mu.Lock()
	s.tearing = true
	s.failed = true
	s.bump()
	s.mu.Unlock()
	s.openGate(true)
	atomic.StoreInt32(&s.hookOn, 0)
	close(s.closing)
	s.pipeA.Close()
	s.pipeR.Close()
	if tc != nil {
		tc.Close()
	}
	for _, e := range s.ep {
		if e != nil {
			select {
			case e.ctlWake <- struct{}{}:
			default:
			}
		}
	}
	select {
	case <-s.proxyDone:
	case <-time.After(3 * time.Second):
		s.ProxyLeaked = true // C10's subject, not ours
	}
}
