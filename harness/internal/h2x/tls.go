// Package h2x holds the harness pieces shared by the C08 and C09 checks: a
// loopback TLS h2 server, raw http2.Framer endpoints on both sides of
// h2.Config.Proxy, the script generator, the per-stream event comparison
// and the flow-control ledgers. See DESIGN.md sections C08 and C09.
package h2x

import (
	"crypto/ecdsa"
	"crypto/elliptic"
	"crypto/rand"
	"crypto/tls"
	"crypto/x509"
	"crypto/x509/pkix"
	"math/big"
	"net"
	"sync"
	"sync/atomic"
	"time"
)

// Upstream is the harness TLS server the relay dials (ALPN h2).
type Upstream struct {
	Pool *x509.CertPool
	ln   net.Listener
	Addr string
}

var (
	upOnce sync.Once
	up     *Upstream
	upErr  error
)

// GetUpstream returns the process-wide listener (created on first use).
func GetUpstream() (*Upstream, error) {
	upOnce.Do(func() { up, upErr = newUpstream() })
	return up, upErr
}

func newUpstream() (*Upstream, error) {
	caKey, err := ecdsa.GenerateKey(elliptic.P256(), rand.Reader)
	if err != nil {
		return nil, err
	}
	caT := &x509.Certificate{
		SerialNumber: big.NewInt(1), Subject: pkix.Name{CommonName: "verif h2x CA"},
		NotBefore: time.Now().Add(-time.Hour), NotAfter: time.Now().Add(240 * time.Hour),
		IsCA: true, BasicConstraintsValid: true, KeyUsage: x509.KeyUsageCertSign | x509.KeyUsageDigitalSignature,
	}
	caDER, err := x509.CreateCertificate(rand.Reader, caT, caT, &caKey.PublicKey, caKey)
	if err != nil {
		return nil, err
	}
	caCert, _ := x509.ParseCertificate(caDER)
	key, err := ecdsa.GenerateKey(elliptic.P256(), rand.Reader)
	if err != nil {
		return nil, err
	}
	leafT := &x509.Certificate{
		SerialNumber: big.NewInt(2), Subject: pkix.Name{CommonName: "127.0.0.1"},
		NotBefore: time.Now().Add(-time.Hour), NotAfter: time.Now().Add(240 * time.Hour),
		KeyUsage: x509.KeyUsageDigitalSignature, ExtKeyUsage: []x509.ExtKeyUsage{x509.ExtKeyUsageServerAuth},
		IPAddresses: []net.IP{net.ParseIP("127.0.0.1")}, DNSNames: []string{"localhost"},
	}
	leafDER, err := x509.CreateCertificate(rand.Reader, leafT, caCert, &key.PublicKey, caKey)
	if err != nil {
		return nil, err
	}
	pool := x509.NewCertPool()
	pool.AddCert(caCert)
	cfg := &tls.Config{
		Certificates: []tls.Certificate{{Certificate: [][]byte{leafDER}, PrivateKey: key}},
		NextProtos:   []string{"h2"},
	}
	ln, err := tls.Listen("tcp", "127.0.0.1:0", cfg)
	if err != nil {
		return nil, err
	}
	return &Upstream{Pool: pool, ln: ln, Addr: ln.Addr().String()}, nil
}

// Accept returns the next accepted connection with the handshake completed.
func (u *Upstream) Accept() (*tls.Conn, error) {
	c, err := u.ln.Accept()
	if err != nil {
		return nil, err
	}
	tc := c.(*tls.Conn)
	tc.SetDeadline(time.Now().Add(60 * time.Second))
	if err := tc.Handshake(); err != nil {
		tc.Close()
		return nil, err
	}
	tc.SetDeadline(time.Time{})
	return tc, nil
}

// countConn counts bytes in both directions and writes in PRNG-sized
// pieces (every piece is its own TLS record).
type countConn struct {
	c      net.Conn
	rd, wr int64
	seg    func(n int) int // may be nil
	segMu  sync.Mutex
}

func (c *countConn) Read(p []byte) (int, error) {
	n, err := c.c.Read(p)
	atomic.AddInt64(&c.rd, int64(n))
	return n, err
}

func (c *countConn) Write(p []byte) (int, error) {
	tot := 0
	for len(p) > 0 {
		k := len(p)
		if c.seg != nil {
			c.segMu.Lock()
			if s := c.seg(k); s >= 1 && s < k {
				k = s
			}
			c.segMu.Unlock()
		}
		n, err := c.c.Write(p[:k])
		atomic.AddInt64(&c.wr, int64(n))
		tot += n
		if err != nil {
			return tot, err
		}
		p = p[k:]
	}
	return tot, nil
}
