package h2x

import "golang.org/x/net/http2"

// Probes are three hand-written sessions with RFC-valid inputs that the
// pinned golang.org/x/net (2019) cannot read, so the relay — which reads with
// http2.Framer and hpack.Decoder — cannot relay them. They are not part of the
// tiers (see notes/C08.md); they are run with
//
//	./check C08 --replay notes/C08-probes/<name>.json
//
// and report C08:x-net-limit:<name>.
var Probes = []string{"push-promise-continuation", "headers-empty-first-fragment", "two-table-size-updates"}

func probePlan(name string) *Plan {
	req := []Field{{N: ":method", V: "GET"}, {N: ":scheme", V: "https"}, {N: ":path", V: "/probe"}, {N: ":authority", V: "upstream.example"}, {N: "x-a", V: "v"}}
	resp := []Field{{N: ":status", V: "200"}, {N: "x-b", V: "w"}}
	p := &Plan{SegC: "full", SegS: "full", SegSeed: 1, WinClass: [2]string{"auto", "auto"}, Gran: [2]string{"huge", "huge"}, SetChange: "none", NStreams: 1}
	p.Init[0].Replenish, p.Init[1].Replenish = true, true
	ph := &Phase{EndAmple: [2]bool{true, true}}
	p.Phases = []*Phase{ph}
	switch name {
	case "push-promise-continuation":
		ph.Ops[0] = []*Op{{K: OpHeaders, S: 1, Fields: req, Pad: -1, End: true}}
		ph.Ops[1] = []*Op{
			{K: OpHeaders, S: 1, Fields: resp, Pad: -1, WaitHdr: true},
			{K: OpPush, S: 1, Promised: 2, Fields: req, Pad: -1, NCont: 1, CutSeed: 3, WaitHdr: true},
			{K: OpHeaders, S: 2, Fields: resp, Pad: -1, End: true},
			{K: OpData, S: 1, N: 10, Pad: -1, End: true, WaitHdr: true},
		}
		p.NPush = 1
	case "headers-empty-first-fragment":
		ph.Ops[0] = []*Op{{K: OpHeaders, S: 1, Fields: req, Pad: -1, End: true, NCont: 1, EmptyFirst: true}}
		ph.Ops[1] = []*Op{{K: OpHeaders, S: 1, Fields: resp, Pad: -1, End: true, WaitHdr: true}}
	case "two-table-size-updates":
		// the client lowers and then raises SETTINGS_HEADER_TABLE_SIZE between two header blocks of the
		// server; RFC 7541 4.2 then requires the server's encoder to signal both sizes at the start of
		// its next block
		ph.Ops[0] = []*Op{{K: OpHeaders, S: 1, Fields: req, Pad: -1, End: true}}
		ph.Ops[1] = []*Op{{K: OpHeaders, S: 1, Fields: resp, Pad: -1, WaitHdr: true}}
		ph.After = []Change{{E: 0, ID: http2.SettingHeaderTableSize, Val: 100, Lower: true}, {E: 0, ID: http2.SettingHeaderTableSize, Val: 4096}}
		ph2 := &Phase{EndAmple: [2]bool{true, true}}
		ph2.Ops[1] = []*Op{{K: OpHeaders, S: 1, Fields: []Field{{N: "grpc-status", V: "0"}, {N: "x-b", V: "w"}}, Pad: -1, End: true, WaitHdr: true}}
		p.Phases = append(p.Phases, ph2)
	case "max-frame-size-lowered-with-queued-data":
		// C09 probe: the server raises MAX_FRAME_SIZE, the client sends 30 000-byte DATA frames, the
		// third one stays queued in the relay behind the server's stream window; the server lowers
		// MAX_FRAME_SIZE (PING barrier), then opens the window
		p.WinClass[1] = "default"
		p.Init[1] = Init{Settings: []http2.Setting{{ID: http2.SettingMaxFrameSize, Val: 32768}}}
		p.BigFrames[0] = true
		ph.EndAmple[1] = false
		ph.Ops[0] = []*Op{{K: OpHeaders, S: 1, Fields: req, Pad: -1},
			{K: OpData, S: 1, N: 30000, Pad: -1}, {K: OpData, S: 1, N: 30000, Pad: -1}, {K: OpData, S: 1, N: 30000, Pad: -1, End: true}}
		ph.After = []Change{{E: 1, ID: http2.SettingMaxFrameSize, Val: 16384, Lower: true, NoDrain: true, WaitRecv: 60000}}
		p.Phases = append(p.Phases, &Phase{EndAmple: [2]bool{true, true}})
	case "priority-behind-negative-window":
		// C08 regression: the server lowers INITIAL_WINDOW_SIZE below what stream 1 already carried
		// (negative window), the stream is closed in both directions, then the client sends PRIORITY
		p.WinClass[1] = "default"
		p.Init[1] = Init{}
		ph.Ops[0] = []*Op{{K: OpHeaders, S: 1, Fields: req, Pad: -1}, {K: OpData, S: 1, N: 100, Pad: -1, End: true}}
		ph.Ops[1] = []*Op{{K: OpHeaders, S: 1, Fields: resp, Pad: -1, End: true, WaitHdr: true}}
		ph.EndAmple[1] = false // no WINDOW_UPDATE on stream 1: its window must go negative
		ph.After = []Change{{E: 1, ID: http2.SettingInitialWindowSize, Val: 50, Lower: true, NoDrain: true, WaitRecv: 100}}
		ph2 := &Phase{EndAmple: [2]bool{true, true}}
		ph2.Ops[0] = []*Op{{K: OpPriority, S: 1, Prio: &http2.PriorityParam{Weight: 9}}}
		p.Phases = append(p.Phases, ph2)
	case "control":
		// the same three sessions without the unreadable feature: must pass
		ph.Ops[0] = []*Op{{K: OpHeaders, S: 1, Fields: req, Pad: -1, End: true, NCont: 1, CutSeed: 5}}
		ph.Ops[1] = []*Op{
			{K: OpHeaders, S: 1, Fields: resp, Pad: -1, WaitHdr: true},
			{K: OpPush, S: 1, Promised: 2, Fields: req, Pad: -1, WaitHdr: true},
			{K: OpHeaders, S: 2, Fields: resp, Pad: -1, End: true},
		}
		p.NPush = 1
		ph.After = []Change{{E: 0, ID: http2.SettingHeaderTableSize, Val: 100, Lower: true}}
		ph2 := &Phase{EndAmple: [2]bool{true, true}}
		ph2.Ops[1] = []*Op{{K: OpHeaders, S: 1, Fields: []Field{{N: "grpc-status", V: "0"}, {N: "x-b", V: "w"}}, Pad: -1, End: true, WaitHdr: true}}
		p.Phases = append(p.Phases, ph2)
	default:
		return nil
	}
	return p
}
